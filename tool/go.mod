module bfvc

go 1.26.8

require golang.org/x/tools v0.50.0

require (
	golang.org/x/mod v0.41.0 // indirect
	golang.org/x/sync v0.23.0 // indirect
)
