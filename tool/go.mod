module bfvc

go 1.26.8

require golang.org/x/tools v0.50.0
