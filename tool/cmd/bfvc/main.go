package main

import (
	"fmt"
	"os"

	"bfvc/internal/vc"
)

func main() {
	if len(os.Args) < 2 {
		fmt.Fprintln(os.Stderr, "usage: bfvc check|dump|list ...")
		os.Exit(2)
	}
	switch os.Args[1] {
	case "dump":
		// bfvc dump <pkgpattern> <funcname-substr>
		os.Setenv("PATH", "/opt/veriftools/go1.26.8/bin:"+os.Getenv("PATH"))
		p, err := vc.Load("/repo", []string{os.Args[2]})
		if err != nil {
			fmt.Fprintln(os.Stderr, err)
			os.Exit(2)
		}
		for _, n := range p.SortedFuncNames(os.Args[3]) {
			f := p.Funcs[n]
			if f.Blocks == nil {
				continue
			}
			fmt.Println("==", n)
			f.WriteTo(os.Stdout)
		}
	default:
		os.Exit(vc.Main(os.Args[1:]))
	}
}
