package vc

import (
	"bufio"
	"encoding/json"
	"flag"
	"fmt"
	"os"
	"path/filepath"
	"sort"
	"strconv"
	"strings"
	"sync"
	"time"

	"golang.org/x/tools/go/ssa"
)

// Plan is the per-property description of what to verify.
type Plan struct {
	ID        string
	Packages  []string
	Verify    []string
	Lemmas    []string
	Undecided []string
	Assume    []string
	Level     string // proof | other
	Replays   []ReplaySpec
	Bounded   []string
	Explain   string
	// Elsewhere: function (as in a verify line) -> property whose plan verifies its contract;
	// the contract is used here and not re-checked.
	Elsewhere map[string]string
}

type ReplaySpec struct {
	Prefix   string // obligation-name prefix
	Template string // file under props/replay
}

func LoadPlan(path string) (*Plan, error) {
	f, err := os.Open(path)
	if err != nil {
		return nil, err
	}
	defer f.Close()
	p := &Plan{Level: "proof"}
	sc := bufio.NewScanner(f)
	for sc.Scan() {
		line := strings.TrimSpace(sc.Text())
		if line == "" || strings.HasPrefix(line, "#") {
			continue
		}
		kw, rest := line, ""
		if i := strings.IndexAny(line, " \t"); i >= 0 {
			kw, rest = line[:i], strings.TrimSpace(line[i+1:])
		}
		switch kw {
		case "id":
			p.ID = rest
		case "packages":
			p.Packages = append(p.Packages, strings.Fields(rest)...)
		case "verify":
			p.Verify = append(p.Verify, rest)
		case "lemma":
			p.Lemmas = append(p.Lemmas, rest)
		case "undecided":
			p.Undecided = append(p.Undecided, rest)
		case "assume":
			p.Assume = append(p.Assume, rest)
		case "level":
			p.Level = rest
		case "explain":
			p.Explain = rest
		case "bounded":
			p.Bounded = append(p.Bounded, rest)
		case "elsewhere":
			// elsewhere <Cxx> <func>: the contract of func is checked by property Cxx's plan
			fs := strings.Fields(rest)
			if len(fs) != 2 {
				return nil, fmt.Errorf("%s: bad elsewhere line %q", path, line)
			}
			other, err := os.ReadFile(filepath.Join(filepath.Dir(path), fs[0]+".plan"))
			if err != nil {
				return nil, fmt.Errorf("%s: elsewhere: %v", path, err)
			}
			found := false
			for _, ol := range strings.Split(string(other), "\n") {
				if of := strings.Fields(ol); len(of) == 2 && of[0] == "verify" && of[1] == fs[1] {
					found = true
				}
			}
			if !found {
				return nil, fmt.Errorf("%s: elsewhere: %s.plan has no line 'verify %s'", path, fs[0], fs[1])
			}
			if p.Elsewhere == nil {
				p.Elsewhere = map[string]string{}
			}
			p.Elsewhere[fs[1]] = fs[0]
			p.Assume = append(p.Assume, fmt.Sprintf("the contract of %s is used here and checked under property %s, not re-checked by this check", fs[1], fs[0]))
		case "replay":
			// replay <obligation-name prefix (may contain spaces)> <template file>
			fs := strings.Fields(rest)
			if len(fs) < 2 {
				return nil, fmt.Errorf("%s: bad replay line %q", path, line)
			}
			tmpl := fs[len(fs)-1]
			prefix := strings.TrimSpace(strings.TrimSuffix(strings.TrimSpace(rest), tmpl))
			p.Replays = append(p.Replays, ReplaySpec{prefix, tmpl})
		default:
			return nil, fmt.Errorf("%s: unknown keyword %q", path, kw)
		}
	}
	return p, nil
}

type KnownFinding struct {
	Property   string `json:"property"`
	Obligation string `json:"obligation"`
	Status     string `json:"status"`
	Commit     string `json:"commit"`
	What       string `json:"what"`
}

func loadKnownFindings(path string) []KnownFinding {
	var out []KnownFinding
	b, err := os.ReadFile(path)
	if err != nil {
		return nil
	}
	for _, line := range strings.Split(string(b), "\n") {
		line = strings.TrimSpace(line)
		if line == "" {
			continue
		}
		var k KnownFinding
		if json.Unmarshal([]byte(line), &k) == nil {
			out = append(out, k)
		}
	}
	return out
}

func Main(args []string) int {
	if len(args) == 0 {
		return 2
	}
	// go/packages finds "go" through this process's PATH: the loader needs go1.26.8.
	origPath = os.Getenv("PATH")
	os.Setenv("PATH", "/opt/veriftools/go1.26.8/bin:"+origPath)
	switch args[0] {
	case "check":
		return cmdCheck(args[1:])
	case "replay":
		return cmdReplay(args[1:])
	}
	fmt.Fprintln(os.Stderr, "unknown command", args[0])
	return 2
}

type checkOpts struct {
	property string
	tier     string
	repo     string
	verif    string
	keep     bool
	verbose  bool
	evidenceDir string
	only     string
	timeout  int
}

func cmdCheck(args []string) int {
	fs := flag.NewFlagSet("check", flag.ContinueOnError)
	var o checkOpts
	fs.StringVar(&o.property, "property", "", "property id")
	fs.StringVar(&o.tier, "tier", "", "quick|thorough")
	fs.StringVar(&o.repo, "repo", "/repo", "repository root")
	fs.StringVar(&o.verif, "verif", "/verif", "verif root")
	fs.StringVar(&o.evidenceDir, "evidence-dir", "", "where to write evidence (default <verif>/evidence)")
	fs.BoolVar(&o.keep, "keep", false, "keep SMT files")
	fs.BoolVar(&o.verbose, "v", false, "verbose")
	fs.StringVar(&o.only, "only", "", "only functions containing this substring")
	fs.IntVar(&o.timeout, "timeout", 0, "per-obligation timeout (s)")
	if err := fs.Parse(args); err != nil {
		return 2
	}
	if o.tier == "" {
		o.tier = os.Getenv("VERIF_TIER")
	}
	if o.tier == "" {
		o.tier = "quick"
	}
	if o.timeout == 0 {
		// quick: every claimed obligation discharges in a few seconds on an idle machine; the
		// cap only bounds how long a failing obligation (a violation) is pursued and leaves
		// room for a loaded machine
		o.timeout = 20
		if o.tier == "thorough" {
			o.timeout = 60
		}
	}
	return runCheck(&o)
}

type obligRecord struct {
	Obligation string  `json:"obligation"`
	Kind       string  `json:"kind"`
	Clause     string  `json:"clause,omitempty"`
	Pos        string  `json:"pos,omitempty"`
	Verdict    string  `json:"verdict"`
	Backend    string  `json:"backend,omitempty"`
	Secs       float64 `json:"s"`
}

func runCheck(o *checkOpts) int {
	t0 := time.Now()
	seed, _ := strconv.Atoi(os.Getenv("VERIF_SEED"))
	plan, err := LoadPlan(filepath.Join(o.verif, "props", o.property+".plan"))
	if err != nil {
		fmt.Fprintln(os.Stderr, "plan:", err)
		return 2
	}
	plan.ID = o.property
	if o.evidenceDir == "" {
		o.evidenceDir = filepath.Join(o.verif, "evidence")
	}
	evPath := filepath.Join(o.evidenceDir, o.property+".json")
	os.MkdirAll(filepath.Dir(evPath), 0o755)
	os.Remove(evPath)
	if old, _ := filepath.Glob(filepath.Join(o.evidenceDir, "replay", o.property+"-*")); old != nil {
		for _, f := range old {
			os.Remove(f)
		}
	}
	toolErr := func(format string, a ...any) int {
		msg := fmt.Sprintf(format, a...)
		fmt.Fprintln(os.Stderr, "TOOL-ERROR:", msg)
		return 2
	}
	prog, err := Load(o.repo, plan.Packages)
	if err != nil {
		return toolErr("load: %v", err)
	}
	cs := NewContracts()
	cs.LoadAll(prog, filepath.Join(o.verif, "specs"))
	if len(cs.Errors) > 0 {
		return toolErr("contract errors:\n%s", strings.Join(cs.Errors, "\n"))
	}
	eng := NewEngine(prog, cs)
	// verify set with closure over used repo contracts
	type item struct {
		name string
		fn   *ssa.Function
	}
	var queue []item
	seen := map[string]bool{}
	var ungenerated []*Obligation
	notFound := func(v, how string) {
		// a function the property's proof rests on is gone (renamed, removed, merged): its
		// obligations cannot be rebuilt on this tree; reported as a failed obligation.
		msg := fmt.Sprintf("bind-error: function %q%s not found (renamed or removed?)", v, how)
		fmt.Fprintln(os.Stderr, msg)
		ungenerated = append(ungenerated, &Obligation{
			Name: v + "#generate[function not found]", Kind: "bind", Func: v,
			Clause: msg, Goal: "false", Verdict: "undecided", Backend: "none", Output: msg,
		})
	}
	for _, v := range plan.Verify {
		fn := prog.FindFunc(v)
		if fn == nil {
			notFound(v, "")
			continue
		}
		if !seen[FuncName(fn)] {
			seen[FuncName(fn)] = true
			queue = append(queue, item{FuncName(fn), fn})
		}
	}
	for v := range plan.Elsewhere {
		fn := prog.FindFunc(v)
		if fn == nil {
			notFound(v, " (elsewhere)")
			continue
		}
		seen[FuncName(fn)] = true
	}
	var results []*FuncResult
	for i := 0; i < len(queue); i++ {
		it := queue[i]
		fc := eng.contractFor(it.fn)
		r := eng.VerifyFunc(it.fn, fc)
		if r.Bailed == "" && (o.only == "" || strings.Contains(it.name, o.only)) {
			results = append(results, r)
		}
		if r.Bailed != "" {
			// The contract no longer binds to the function (a clause names something the code
			// does not have any more, an anchored call is gone) or the body left the modelled
			// subset: the proof of this function cannot be rebuilt on this tree. Reported as a
			// failed obligation of its own (undecided: no input), not as a crash of the check.
			fmt.Fprintf(os.Stderr, "cannot generate VCs for %s: %s\n", it.name, r.Bailed)
			reason := r.Bailed
			if len(reason) > 100 {
				reason = reason[:100]
			}
			ungenerated = append(ungenerated, &Obligation{
				Name: shortFuncName(it.name) + "#generate[" + reason + "]", Kind: "bind", Func: it.name,
				Clause: r.Bailed, Goal: "false", Verdict: "undecided", Backend: "none",
				Output: "verification conditions of " + it.name + " could not be generated: " + r.Bailed,
			})
			continue
		}
		var used []string
		for u := range r.Used {
			used = append(used, u)
		}
		sort.Strings(used)
		for _, u := range used {
			if !seen[u] {
				seen[u] = true
				queue = append(queue, item{u, prog.Funcs[u]})
			}
		}
	}
	// lemmas
	var lemmaCtx *Ctx
	if len(plan.Lemmas) > 0 {
		lemmaCtx, err = eng.lemmaObligations(plan.Lemmas)
		if err != nil {
			return toolErr("lemma: %v", err)
		}
	}
	// gather obligations
	var all []*Obligation
	for _, r := range results {
		all = append(all, r.Ctx.Oblig...)
	}
	if lemmaCtx != nil {
		all = append(all, lemmaCtx.Oblig...)
	}
	all = append(all, ungenerated...)
	if len(all) == 0 {
		return toolErr("no obligations generated (vacuous check)")
	}
	tmp, err := os.MkdirTemp("", "bfvc-"+o.property+"-")
	if err != nil {
		return toolErr("%v", err)
	}
	if !o.keep {
		defer os.RemoveAll(tmp)
	} else {
		fmt.Fprintln(os.Stderr, "smt files in", tmp)
	}
	// discharge in parallel
	var wg sync.WaitGroup
	sem := make(chan struct{}, 12)
	names := map[string]bool{}
	for i, ob := range all {
		ob.Seq = i
		if names[ob.Name] && !ob.ExpectFail {
			return toolErr("duplicate obligation name %s", ob.Name)
		}
		names[ob.Name] = true
	}
	for _, ob := range all {
		if ob.Goal == "true" && !ob.ExpectFail {
			ob.Verdict, ob.Backend = "unsat", "trivial"
			continue
		}
		if ob.Kind == "bind" {
			continue
		}
		wg.Add(1)
		sem <- struct{}{}
		go func(ob *Obligation) {
			defer wg.Done()
			defer func() { <-sem }()
			to := o.timeout
			if ob.ExpectFail {
				to = 3
			}
			ob.Discharge(tmp, to, o.tier == "thorough" && !ob.ExpectFail)
		}(ob)
	}
	wg.Wait()
	// Second chance for obligations that ran out of time (not refuted, not given up by the solver):
	// on a loaded machine a proof that takes a few seconds can miss the cap. They are tried once
	// more, few at a time, with three times the cap; the verdict of the second run stands.
	var late []*Obligation
	for _, ob := range all {
		if ob.Verdict == "timeout" && !ob.ExpectFail && ob.Kind != "bind" {
			late = append(late, ob)
		}
	}
	if len(late) > 0 && len(late) <= 40 {
		fmt.Fprintf(os.Stderr, "%d obligation(s) timed out; second run with %ds each\n", len(late), 3*o.timeout)
		sem2 := make(chan struct{}, 4)
		for _, ob := range late {
			wg.Add(1)
			sem2 <- struct{}{}
			go func(ob *Obligation) {
				defer wg.Done()
				defer func() { <-sem2 }()
				first := ob.Secs
				ob.Discharge(tmp, 3*o.timeout, o.tier == "thorough")
				ob.Secs += first
			}(ob)
		}
		wg.Wait()
	}
	// classify
	known := loadKnownFindings(filepath.Join(o.verif, "known_findings.jsonl"))
	knownSet := map[string]KnownFinding{}
	for _, k := range known {
		if k.Property == o.property && k.Status == "known" {
			knownSet[k.Obligation] = k
		}
	}
	for _, ob := range all {
		if ob.Verdict == "error" && !ob.ExpectFail {
			// every solver rejected the script (typically a clause whose types no longer fit the
			// code): the obligation is undecided on this tree and is reported as failed below.
			fmt.Fprintf(os.Stderr, "solver rejected the script of %s: %s\n", ob.Name, firstLines(ob.Output, 2))
		}
	}
	var failing, vacuous []*Obligation
	nOblig, nDis := 0, 0
	byBackend := map[string]int{}
	byKind := map[string]int{}
	var solverTotal, solverMax float64
	canaries := 0
	var knownHit []string
	var slow []string
	for _, ob := range all {
		solverTotal += ob.Secs
		if ob.Secs > solverMax {
			solverMax = ob.Secs
		}
		if ob.ExpectFail {
			if ob.Verdict == "unsat" {
				vacuous = append(vacuous, ob)
			} else {
				canaries++
			}
			continue
		}
		nOblig++
		byKind[ob.Kind]++
		if ob.Verdict == "unsat" {
			nDis++
			byBackend[ob.Backend]++
			if ob.Secs > 5 {
				slow = append(slow, fmt.Sprintf("%s (%.1fs)", ob.Name, ob.Secs))
			}
			continue
		}
		if k, ok := knownSet[ob.Name]; ok {
			knownHit = append(knownHit, ob.Name)
			fmt.Printf("KNOWN-FINDING: property=%s %s [%s]\n", o.property, k.What, ob.Name)
			nOblig-- // not counted as an obligation of the claimed set
			byKind[ob.Kind]--
			continue
		}
		failing = append(failing, ob)
	}
	if o.verbose {
		for _, ob := range all {
			fmt.Fprintf(os.Stderr, "%-8s %-7s %5.2fs %s\n", ob.Verdict, ob.Backend, ob.Secs, ob.Name)
		}
	}
	if len(vacuous) > 0 && len(failing) == 0 {
		// nothing failed but some path/antecedent became unreachable: the
		// result would be vacuous, so the property is undecided (tool error).
		for _, v := range vacuous {
			fmt.Fprintf(os.Stderr, "TOOL-ERROR: vacuity: %s (%s) is refutable: assumptions inconsistent or path unreachable\n", v.Name, v.Clause)
		}
		return 2
	}
	for _, v := range vacuous {
		// with failed obligations present, unreachable paths are a consequence
		// (e.g. a violated callee precondition) and are only reported.
		fmt.Fprintf(os.Stderr, "note: %s is unreachable under the assumed callee contracts (consequence of the failed obligations)\n", v.Name)
	}
	// violations
	exit := 0
	var samples []any
	for i, ob := range all {
		if ob.ExpectFail || ob.Verdict != "unsat" {
			continue
		}
		if len(samples) < 6 && (ob.Kind == "post" || ob.Kind == "lemma" || i%17 == 0) {
			samples = append(samples, obligRecord{ob.Name, ob.Kind, ob.Clause, ob.Pos, ob.Verdict, ob.Backend, round2(ob.Secs)})
		}
	}
	if len(samples) == 0 {
		for _, ob := range all {
			if !ob.ExpectFail {
				samples = append(samples, obligRecord{ob.Name, ob.Kind, ob.Clause, ob.Pos, ob.Verdict, ob.Backend, round2(ob.Secs)})
				break
			}
		}
	}
	replayDir := filepath.Join(o.evidenceDir, "replay")
	for _, ob := range failing {
		exit = 1
		os.MkdirAll(replayDir, 0o755)
		rp := filepath.Join(replayDir, fmt.Sprintf("%s-%08x.json", o.property, hashString(ob.Name)))
		rec := map[string]any{
			"property": o.property, "obligation": ob.Name, "kind": ob.Kind, "function": ob.Func, "pos": ob.Pos,
			"clause": ob.Clause, "verdict": ob.Verdict, "backend": ob.Backend, "solver_output": truncate(ob.Output, 4000),
			"model": ob.Model,
		}
		for _, r := range results {
			if r.Name == ob.Func && ob.Kind != "bind" && ob.Verdict != "error" {
				ob.FindModel(tmp, r.ModelVars)
			}
		}
		rec["counterexample_search"] = ob.ModelNote
		replayed := tryReplay(o, plan, ob, rec)
		b, _ := json.MarshalIndent(rec, "", " ")
		os.WriteFile(rp, b, 0o644)
		// keep the SMT file beside the replay record
		if ob.File != "" {
			if data, err := os.ReadFile(ob.File); err == nil {
				os.WriteFile(strings.TrimSuffix(rp, ".json")+".smt2", data, 0o644)
			}
		}
		suffix := ""
		if !replayed {
			suffix = " no-failing-input-found"
		}
		fmt.Printf("FAILED-OBLIGATION: %s kind=%s verdict=%s pos=%s clause=%q\n", ob.Name, ob.Kind, ob.Verdict, ob.Pos, ob.Clause)
		fmt.Printf("VIOLATION property=%s replay=%s%s\n", o.property, rp, suffix)
	}
	// evidence
	var fnRecs []any
	for _, r := range results {
		kinds := map[string]int{}
		for _, ob := range r.Ctx.Oblig {
			if !ob.ExpectFail {
				kinds[ob.Kind]++
			}
		}
		clauses := 0
		if r.Contract != nil {
			clauses = len(r.Contract.Requires) + len(r.Contract.Ensures) + len(r.Contract.Modifies)
			for _, l := range r.Contract.Loops {
				clauses += len(l.Invariants)
			}
		}
		fnRecs = append(fnRecs, map[string]any{"name": shortFuncName(r.Name), "contract_clauses": clauses, "obligations": kinds, "loops": r.Loops, "framed": r.Framed, "integers": "mathematical Int with range facts; unsigned ops exact (mod 2^w)"})
	}
	var notes []string
	for n := range eng.Notes {
		notes = append(notes, n)
	}
	sort.Strings(notes)
	var assumedSpecs, otherNotes []string
	for _, n := range notes {
		if strings.HasPrefix(n, "assumed contract") {
			assumedSpecs = append(assumedSpecs, n)
		} else {
			otherNotes = append(otherNotes, n)
		}
	}
	level := plan.Level
	cov := map[string]any{
		"obligations": nOblig, "discharged": nDis,
		"checker_cmd":  fmt.Sprintf("bin/bfvc check --property %s --tier %s", o.property, o.tier),
		"trusted_base": []string{"go/packages+go/types+go/ssa (x/tools v0.50.0, go1.26.8) as the semantics of the source", "bfvc VC generator (this tool)", "z3 5.1.0 | z3 4.8.12 | cvc5 1.0.3 (unsat answers)", "background theory in tool/internal/vc/smt.go (Prelude)", "assumed contracts in /verif/specs (listed under assumed_specs_used)"},
		"functions":    fnRecs, "obligations_by_kind": byKind, "by_backend": byBackend,
		"solver_s_total": round2(solverTotal), "solver_s_max": round2(solverMax),
		"assumed_specs_used": assumedSpecs, "axioms_and_assume_like": cs.AssumeLike,
		"vacuity":           map[string]any{"canaries_and_covers_not_refutable": canaries},
		"known_findings_hit": knownHit, "slow_obligations": slow,
		"bounded": plan.Bounded, "undecided_clauses": plan.Undecided,
		"samples": samples,
	}
	if level != "proof" {
		cov["explanation"] = plan.Explain
	}
	ev := map[string]any{
		"property_id": o.property, "tier": o.tier, "seed": seed, "level": level,
		"coverage": cov, "assumptions": append(otherNotes, plan.Assume...), "wall_s": round2(time.Since(t0).Seconds()),
		"violations": len(failing),
	}
	b, _ := json.MarshalIndent(ev, "", " ")
	if err := os.WriteFile(evPath, b, 0o644); err != nil {
		return toolErr("evidence: %v", err)
	}
	fmt.Printf("property=%s tier=%s obligations=%d discharged=%d failing=%d known=%d functions=%d wall=%.1fs\n",
		o.property, o.tier, nOblig, nDis, len(failing), len(knownHit), len(results), time.Since(t0).Seconds())
	return exit
}

func round2(f float64) float64 { return float64(int(f*100+0.5)) / 100 }

func truncate(s string, n int) string {
	if len(s) > n {
		return s[:n] + "..."
	}
	return s
}

// lemmaObligations builds obligations for named global lemmas.
func (e *Engine) lemmaObligations(names []string) (*Ctx, error) {
	ctx := NewCtx()
	f := &Frame{eng: e, ctx: ctx, vals: map[ssa.Value]string{}, tuples: map[ssa.Value][]string{}, ordinals: map[string]int{}, closures: map[string]*closureVal{}, usedContracts: map[string]bool{}}
	f.top = f
	st := &State{heaps: map[string]string{}, base: "0", alloc: "1"}
	for _, n := range names {
		var found *NamedProp
		for i := range e.CS.Lemmas {
			if e.CS.Lemmas[i].Name == n {
				found = &e.CS.Lemmas[i]
			}
		}
		if found == nil {
			return nil, fmt.Errorf("lemma %q not found", n)
		}
		env := &SpecEnv{f: f, vars: map[string]sval{}, st: st, old: st, reach: "true"}
		g, err := env.evalGoal(found.E)
		if err != nil {
			return nil, fmt.Errorf("lemma %s: %v", n, err)
		}
		ctx.AddOblig(&Obligation{Name: "lemma#" + n, Kind: "lemma", Clause: found.Text, Reach: "true", Goal: g})
		// lemmas are proved in plan order; each is available to the later ones
		plain, err := env.evalBool(found.E)
		if err != nil {
			return nil, fmt.Errorf("lemma %s: %v", n, err)
		}
		ctx.Fact(plain)
	}
	ctx.AddOblig(&Obligation{Name: "lemma#canary", Kind: "canary", Reach: "true", Goal: "false", ExpectFail: true, Clause: "axioms are satisfiable"})
	return ctx, nil
}

var origPath string
