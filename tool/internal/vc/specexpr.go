package vc

import (
	"fmt"
	"go/ast"
	"go/constant"
	"go/types"
	"strings"

	"golang.org/x/tools/go/ssa"
)

// sval is the value of a spec expression: an SMT term with its sort and,
// where it denotes a Go value, the Go type.
type sval struct {
	t    string
	sort string
	typ  types.Type
	// str: for a byte slice returned by a stable pure getter, its (stable,
	// heap-independent) contents as a byte string.
	str string
}

// SpecEnv evaluates contract expressions in a frame.
type SpecEnv struct {
	f     *Frame
	vars  map[string]sval
	st    *State // current heap
	old   *State // heap for old(...)
	pkg   *ssa.Package
	inOld bool
	reach string
	pol   int // +1: positive position of a goal being proved; -1: negative; 0: assumption
	// entryVars: parameter values at function entry (what names mean inside old(...)).
	entryVars map[string]sval
	// cellVars: captured variables (closure free variables): name -> cell address and value type.
	cellVars map[string]sval
	qdepth   int // nesting depth of quantifiers being evaluated
	inTrig   bool // evaluating an instantiation pattern
	// recLevel: unfolding level to use for calls of a recursive spec function (inside its own axiom)
	recLevel map[string]int
	// rangeSeen: in a loop invariant of a map-range loop, the ghost set of keys produced so far
	rangeSeen string
}

func (f *Frame) specEnv(st, old *State, pkg *ssa.Package) *SpecEnv {
	if pkg == nil {
		pkg = f.fn.Pkg
		if pkg == nil && f.fn.Parent() != nil {
			pkg = f.fn.Parent().Pkg
		}
	}
	return &SpecEnv{f: f, vars: map[string]sval{}, st: st, old: old, pkg: pkg, reach: "true"}
}

func (env *SpecEnv) sv(term string, t types.Type) sval {
	return sval{t: term, sort: env.f.ctx.sortOf(t), typ: t}
}

// funcEnv: environment for the function's own contract: parameters by name.
func (f *Frame) funcEnv(st, old *State) *SpecEnv {
	env := f.specEnv(st, old, nil)
	env.entryVars = map[string]sval{}
	for _, p := range f.fn.Params {
		env.vars[p.Name()] = env.sv(f.vals[p], p.Type())
		env.entryVars[p.Name()] = env.vars[p.Name()]
	}
	for _, fv := range f.fn.FreeVars {
		// a captured variable x is a pointer to its cell: in contracts x means the
		// variable's current value, &x (spelled addr_x) its cell.
		if pt, ok := fv.Type().Underlying().(*types.Pointer); ok {
			env.vars["addr_"+fv.Name()] = env.sv(f.vals[fv], fv.Type())
			if env.cellVars == nil {
				env.cellVars = map[string]sval{}
			}
			env.cellVars[fv.Name()] = sval{t: f.vals[fv], typ: pt.Elem()}
			continue
		}
		env.vars[fv.Name()] = env.sv(f.vals[fv], fv.Type())
	}
	return env
}

// calleeEnv: environment for a callee's contract at a call site.
func (f *Frame) calleeEnv(fc *FuncContract, callee *ssa.Function, sig *types.Signature, args []string, st, old *State) *SpecEnv {
	var pkg *ssa.Package
	if callee != nil {
		pkg = callee.Pkg
	} else if fc != nil {
		// interface-method contract: names resolve in the package declaring the interface
		for _, p := range f.eng.Prog.SSA.AllPackages() {
			if strings.HasPrefix(fc.Ref, p.Pkg.Path()+".") && (pkg == nil || len(p.Pkg.Path()) > len(pkg.Pkg.Path())) {
				pkg = p
			}
		}
	}
	if fc != nil && fc.DeclPkg != "" && (pkg == nil || pkg.Pkg.Path() != fc.DeclPkg) {
		// a contract for a dependency stated in a package's contract file: its names (types,
		// spec functions) resolve in that package
		for _, p := range f.eng.Prog.SSA.AllPackages() {
			if p.Pkg.Path() == fc.DeclPkg {
				pkg = p
			}
		}
	}
	env := f.specEnv(st, old, pkg)
	if callee != nil && callee.Blocks != nil {
		for i, p := range callee.Params {
			if i < len(args) {
				env.vars[p.Name()] = env.sv(args[i], p.Type())
			}
		}
		// a closure called directly: its captured variables are visible by name
		if len(f.calleeBindings) == len(callee.FreeVars) {
			for i, fv := range callee.FreeVars {
				if pt, ok := fv.Type().Underlying().(*types.Pointer); ok {
					env.vars["addr_"+fv.Name()] = env.sv(f.calleeBindings[i], fv.Type())
					if env.cellVars == nil {
						env.cellVars = map[string]sval{}
					}
					env.cellVars[fv.Name()] = sval{t: f.calleeBindings[i], typ: pt.Elem()}
				} else {
					env.vars[fv.Name()] = env.sv(f.calleeBindings[i], fv.Type())
				}
			}
		}
	} else {
		// no body: parameter names from the signature; receiver is "recv".
		i := 0
		if sig.Recv() != nil {
			name := sig.Recv().Name()
			if name == "" || name == "_" {
				name = "recv"
			}
			env.vars[name] = env.sv(args[0], sig.Recv().Type())
			env.vars["recv"] = env.vars[name]
			i = 1
		} else if len(args) == sig.Params().Len()+1 {
			// interface method: first arg is the receiver value (Iface)
			env.vars["recv"] = sval{t: args[0], sort: "Iface"}
			i = 1
		}
		for j := 0; j < sig.Params().Len() && i+j < len(args); j++ {
			name := sig.Params().At(j).Name()
			if name == "" || name == "_" {
				name = fmt.Sprintf("arg%d", j)
			}
			env.vars[name] = env.sv(args[i+j], sig.Params().At(j).Type())
			env.vars[fmt.Sprintf("arg%d", j)] = env.vars[name]
		}
	}
	if callee != nil {
		for j := 0; j < sig.Params().Len(); j++ {
			off := 0
			if sig.Recv() != nil {
				off = 1
			}
			if j+off < len(args) {
				env.vars[fmt.Sprintf("arg%d", j)] = env.sv(args[j+off], sig.Params().At(j).Type())
			}
		}
	}
	return env
}

func (env *SpecEnv) bindResults(sig *types.Signature, res []string) {
	for i := 0; i < sig.Results().Len(); i++ {
		r := sig.Results().At(i)
		v := env.sv(res[i], r.Type())
		env.vars[fmt.Sprintf("ret%d", i)] = v
		if r.Name() != "" && r.Name() != "_" {
			if _, clash := env.vars[r.Name()]; !clash {
				env.vars[r.Name()] = v
			}
		}
	}
	if sig.Results().Len() == 1 {
		env.vars["ret"] = env.vars["ret0"]
	}
}

func (env *SpecEnv) evalBool(e Expr) (string, error) {
	v, err := env.eval(e)
	if err != nil {
		return "", err
	}
	if v.sort != "Bool" {
		return "", fmt.Errorf("expression %s is not boolean (sort %s)", e.exprString(), v.sort)
	}
	return v.t, nil
}

func specSort(c *Ctx, name string) (string, bool) {
	switch name {
	case "int", "Int", "int64", "uint64", "uint32", "int32", "uint8", "byte", "uint":
		return "Int", true
	case "bool", "Bool":
		return "Bool", true
	case "string", "bytes", "Str":
		return "Str", true
	case "ptr", "Ptr":
		return "Ptr", true
	case "iface", "Iface", "error":
		return "Iface", true
	case "slice", "Slice":
		return "Slice", true
	}
	if strings.HasPrefix(name, "*") {
		return "Ptr", true
	}
	if strings.HasPrefix(name, "[]") {
		return "Slice", true
	}
	return "", false
}

func (env *SpecEnv) state() *State {
	if env.inOld {
		return env.old
	}
	return env.st
}

func (env *SpecEnv) eval(e Expr) (sval, error) {
	f := env.f
	ctx := f.ctx
	switch x := e.(type) {
	case *EInt:
		var v string
		if strings.HasPrefix(x.V, "0x") || strings.HasPrefix(x.V, "0X") {
			c := constant.MakeFromLiteral(x.V, 5 /* token.INT */, 0)
			v = c.ExactString()
		} else {
			v = x.V
		}
		return sval{t: v, sort: "Int"}, nil
	case *EStr:
		return sval{t: ctx.strLit(x.V), sort: "Str"}, nil
	case *EBool:
		if x.V {
			return sval{t: "true", sort: "Bool"}, nil
		}
		return sval{t: "false", sort: "Bool"}, nil
	case *ENil:
		return sval{t: "nil", sort: "Nil"}, nil
	case *EOld:
		saved := env.inOld
		env.inOld = true
		v, err := env.eval(x.X)
		env.inOld = saved
		return v, err
	case *EIdent:
		if env.inOld {
			// old(p): parameters denote their values at function entry
			if v, ok := env.entryVars[x.Name]; ok {
				return v, nil
			}
		}
		if v, ok := env.vars[x.Name]; ok {
			return v, nil
		}
		if c, ok := env.cellVars[x.Name]; ok {
			// captured variable: its value in the state being evaluated
			return env.sv(f.load(env.state(), c.t, c.typ), c.typ), nil
		}
		if v, ok := env.pkgMember(env.pkg, x.Name); ok {
			return v, nil
		}
		if v, ok := env.uncapturedOuter(x.Name); ok {
			return v, nil
		}
		return sval{}, fmt.Errorf("unknown identifier %q", x.Name)
	case *EUn:
		if x.Op == "!" {
			env.pol = -env.pol
		}
		v, err := env.eval(x.X)
		if x.Op == "!" {
			env.pol = -env.pol
		}
		if err != nil {
			return sval{}, err
		}
		switch x.Op {
		case "!":
			if v.sort != "Bool" {
				return sval{}, fmt.Errorf("! on non-bool")
			}
			return sval{t: Not(v.t), sort: "Bool"}, nil
		case "-":
			return sval{t: "(- " + v.t + ")", sort: "Int"}, nil
		}
	case *EBin:
		return env.evalBin(x)
	case *EQuant:
		saved := map[string]sval{}
		var binders []string
		for _, qv := range x.Vars {
			srt, ok := specSort(ctx, qv.Type)
			var valTyp types.Type
			if !ok && env.pkg != nil {
				// a named (struct) type of the package, by value: `forall k sessionKey`
				scope, tname := env.pkg.Pkg.Scope(), qv.Type
				if i := strings.Index(tname, "."); i > 0 {
					// pkg.Type of an imported package
					if ip := env.importedPkg(tname[:i]); ip != nil {
						scope, tname = ip.Pkg.Scope(), tname[i+1:]
					}
				}
				if obj := scope.Lookup(tname); obj != nil {
					if tn, isTN := obj.(*types.TypeName); isTN {
						valTyp = tn.Type()
						srt, ok = ctx.sortOf(valTyp), true
					}
				}
			}
			if !ok {
				return sval{}, fmt.Errorf("unknown sort %q in quantifier", qv.Type)
			}
			if old, ok := env.vars[qv.Name]; ok {
				saved[qv.Name] = old
			}
			name := "q_" + qv.Name
			qval := sval{t: name, sort: srt, typ: valTyp}
			// Go-typed bound variable (e.g. `forall ss *solicitState`): keep the type
			// so fields and methods can be selected in the body.
			if base := strings.TrimLeft(qv.Type, "*"); base != qv.Type && env.pkg != nil {
				if obj := env.pkg.Pkg.Scope().Lookup(base); obj != nil {
					if tn, ok := obj.(*types.TypeName); ok {
						var gt types.Type = tn.Type()
						for i := 0; i < len(qv.Type)-len(base); i++ {
							gt = types.NewPointer(gt)
						}
						qval.typ = gt
					}
				}
			}
			env.vars[qv.Name] = qval
			binders = append(binders, fmt.Sprintf("(%s %s)", name, srt))
		}
		env.qdepth++
		body, err := env.evalBool(x.Body)
		if err == nil && x.Trig != nil {
			env.inTrig = true
			tv, terr := env.eval(x.Trig)
			if terr != nil {
				err = terr
			} else {
				pats := tv.t
				for _, t2 := range x.Trigs {
					tv2, terr := env.eval(t2)
					if terr != nil {
						err = terr
						break
					}
					pats += " " + tv2.t
				}
				alts := ":pattern (" + pats + ")"
				if strings.Contains(pats, "(sfr2_") {
					// recursive spec functions: also match the lower unfolding levels
					alts += " :pattern (" + strings.ReplaceAll(pats, "(sfr2_", "(sfr1_") + ")"
					alts += " :pattern (" + strings.ReplaceAll(pats, "(sfr2_", "(sfr0_") + ")"
				}
				body = fmt.Sprintf("(! %s %s)", body, alts)
			}
			env.inTrig = false
		}
		env.qdepth--
		for _, qv := range x.Vars {
			delete(env.vars, qv.Name)
			if old, ok := saved[qv.Name]; ok {
				env.vars[qv.Name] = old
			}
		}
		if err != nil {
			return sval{}, err
		}
		q := "exists"
		if x.Forall {
			q = "forall"
		}
		out := fmt.Sprintf("(%s (%s) %s)", q, strings.Join(binders, " "), body)
		if !x.Forall && env.pol == 1 && env.qdepth == 0 && len(x.Vars) == 1 && f.top != nil && len(f.top.loopIdxTerms) > 0 {
			if srt, _ := specSort(ctx, x.Vars[0].Type); srt == "Int" {
				// An existential to be proved: the solver has to find the witness by pattern matching,
				// which fails when the witness is a loop index that no term of the goal mentions. Offer
				// the loop counters of the function as candidate witnesses: (or P(c1) .. (exists k. P(k)))
				// is equivalent to the existential.
				name := x.Vars[0].Name
				savedV, had := env.vars[name]
				var alts []string
				for _, c := range f.top.loopIdxTerms {
					env.vars[name] = sval{t: c, sort: "Int"}
					env.qdepth++ // evaluated like a quantifier body: no side facts keyed on the candidate
					inst, ierr := env.evalBool(x.Body)
					env.qdepth--
					if ierr == nil {
						alts = append(alts, inst)
					}
				}
				if had {
					env.vars[name] = savedV
				} else {
					delete(env.vars, name)
				}
				if len(alts) > 0 {
					out = "(or " + strings.Join(alts, " ") + " " + out + ")"
				}
			}
		}
		return sval{t: out, sort: "Bool"}, nil
	case *ESel:
		return env.evalSel(x)
	case *EIndex:
		return env.evalIndex(x)
	case *ESlice:
		v, err := env.eval(x.X)
		if err != nil {
			return sval{}, err
		}
		s, err := env.asStr(v)
		if err != nil {
			return sval{}, err
		}
		lo, hi := "0", "(slen "+s+")"
		if x.Lo != nil {
			l, err := env.eval(x.Lo)
			if err != nil {
				return sval{}, err
			}
			lo = l.t
		}
		if x.Hi != nil {
			h, err := env.eval(x.Hi)
			if err != nil {
				return sval{}, err
			}
			hi = h.t
		}
		return sval{t: fmt.Sprintf("(ssub %s %s %s)", s, lo, hi), sort: "Str"}, nil
	case *ECall:
		return env.evalCall(x)
	}
	return sval{}, fmt.Errorf("cannot evaluate %s", e.exprString())
}

// asStr coerces a byte slice or string value to Str.
func (env *SpecEnv) asStr(v sval) (string, error) {
	if v.str != "" {
		return v.str, nil
	}
	switch v.sort {
	case "Str":
		return v.t, nil
	case "Slice":
		return fmt.Sprintf("(content %s %s)", env.f.heap(env.state(), "H_uint8"), v.t), nil
	}
	return "", fmt.Errorf("cannot view sort %s as byte string", v.sort)
}

func (env *SpecEnv) pkgMember(pkg *ssa.Package, name string) (sval, bool) {
	if pkg == nil {
		return sval{}, false
	}
	m, ok := pkg.Members[name]
	if !ok {
		return sval{}, false
	}
	switch x := m.(type) {
	case *ssa.NamedConst:
		return env.sv(env.f.constTerm(x.Value), x.Type()), true
	case *ssa.Global:
		et := x.Type().Underlying().(*types.Pointer).Elem()
		if t, ok := env.f.sentinel(x); ok {
			return env.sv(t, et), true
		}
		return env.sv(env.f.load(env.state(), env.f.globalPtr(x), et), et), true
	}
	return sval{}, false
}

// importedPkg resolves a package name visible from env.pkg.
func (env *SpecEnv) importedPkg(name string) *ssa.Package {
	if env.pkg != nil {
		for _, imp := range env.pkg.Pkg.Imports() {
			if imp.Name() == name {
				return env.f.eng.Prog.SSA.Package(imp)
			}
		}
	}
	// fall back: any loaded package with that name (unique)
	var found *ssa.Package
	for _, p := range env.f.eng.Prog.SSA.AllPackages() {
		if p.Pkg.Name() == name {
			if found != nil && found != p {
				return nil
			}
			found = p
		}
	}
	return found
}

func (env *SpecEnv) evalBin(x *EBin) (sval, error) {
	switch x.Op {
	case "&&", "||", "==>", "<==>":
		if x.Op == "<==>" && env.pol != 0 {
			// both directions, each with its own polarity
			a, err := env.evalBin(&EBin{"==>", x.L, x.R})
			if err != nil {
				return sval{}, err
			}
			b, err := env.evalBin(&EBin{"==>", x.R, x.L})
			if err != nil {
				return sval{}, err
			}
			return sval{t: And(a.t, b.t), sort: "Bool"}, nil
		}
		if x.Op == "==>" {
			env.pol = -env.pol
		}
		l, err := env.evalBool(x.L)
		if x.Op == "==>" {
			env.pol = -env.pol
		}
		if err != nil {
			return sval{}, err
		}
		r, err := env.evalBool(x.R)
		if err != nil {
			return sval{}, err
		}
		switch x.Op {
		case "&&":
			return sval{t: And(l, r), sort: "Bool"}, nil
		case "||":
			return sval{t: Or(l, r), sort: "Bool"}, nil
		case "==>":
			return sval{t: Implies(l, r), sort: "Bool"}, nil
		default:
			return sval{t: Eq(l, r), sort: "Bool"}, nil
		}
	}
	l, err := env.eval(x.L)
	if err != nil {
		return sval{}, err
	}
	r, err := env.eval(x.R)
	if err != nil {
		return sval{}, err
	}
	switch x.Op {
	case "==", "!=":
		eq, err := env.equal(l, r)
		if err != nil {
			return sval{}, fmt.Errorf("%s: %v", x.exprString(), err)
		}
		if x.Op == "!=" {
			eq = Not(eq)
		}
		return sval{t: eq, sort: "Bool"}, nil
	case "<", "<=", ">", ">=":
		if l.sort == "Str" && r.sort == "Str" {
			switch x.Op {
			case "<":
				return sval{t: env.f.ctx.strLess(l.t, r.t), sort: "Bool"}, nil
			case ">":
				return sval{t: env.f.ctx.strLess(r.t, l.t), sort: "Bool"}, nil
			case "<=":
				return sval{t: Not(env.f.ctx.strLess(r.t, l.t)), sort: "Bool"}, nil
			default:
				return sval{t: Not(env.f.ctx.strLess(l.t, r.t)), sort: "Bool"}, nil
			}
		}
		if l.sort != "Int" || r.sort != "Int" {
			return sval{}, fmt.Errorf("%s: comparison of %s and %s", x.exprString(), l.sort, r.sort)
		}
		return sval{t: fmt.Sprintf("(%s %s %s)", x.Op, l.t, r.t), sort: "Bool"}, nil
	case "+", "-", "*":
		if l.sort == "Str" && x.Op == "+" {
			rs, err := env.asStr(r)
			if err != nil {
				return sval{}, err
			}
			return sval{t: fmt.Sprintf("(scat %s %s)", l.t, rs), sort: "Str"}, nil
		}
		if l.sort != "Int" || r.sort != "Int" {
			return sval{}, fmt.Errorf("%s: arithmetic on %s and %s", x.exprString(), l.sort, r.sort)
		}
		return sval{t: fmt.Sprintf("(%s %s %s)", x.Op, l.t, r.t), sort: "Int"}, nil
	case "/":
		return sval{t: fmt.Sprintf("(div %s %s)", l.t, r.t), sort: "Int"}, nil
	case "%":
		return sval{t: fmt.Sprintf("(mod %s %s)", l.t, r.t), sort: "Int"}, nil
	case "++":
		ls, err := env.asStr(l)
		if err != nil {
			return sval{}, err
		}
		rs, err := env.asStr(r)
		if err != nil {
			return sval{}, err
		}
		return sval{t: fmt.Sprintf("(scat %s %s)", ls, rs), sort: "Str"}, nil
	case "&":
		return sval{t: fmt.Sprintf("(band %s %s)", l.t, r.t), sort: "Int"}, nil
	case "in":
		return env.evalIn(l, r)
	}
	return sval{}, fmt.Errorf("unsupported operator %s", x.Op)
}

func (env *SpecEnv) equal(l, r sval) (string, error) {
	if l.sort == "Nil" && r.sort == "Nil" {
		return "true", nil
	}
	if l.sort == "Nil" {
		l, r = r, l
	}
	if r.sort == "Nil" {
		switch l.sort {
		case "Ptr":
			return Eq(l.t, "nil"), nil
		case "Slice":
			return Eq("(sbase "+l.t+")", "nil"), nil
		case "Iface":
			return Eq("(ityp "+l.t+")", "0"), nil
		}
		return "", fmt.Errorf("nil compared with sort %s", l.sort)
	}
	// byte slices compare by content in specifications
	if l.sort == "Slice" && r.sort == "Slice" && (l.typ == nil || isByteSlice(l.typ)) {
		ls, _ := env.asStr(l)
		rs, _ := env.asStr(r)
		return env.strEq(ls, rs), nil
	}
	if l.sort == "Slice" && r.sort == "Str" || l.sort == "Str" && r.sort == "Slice" {
		ls, _ := env.asStr(l)
		rs, _ := env.asStr(r)
		return env.strEq(ls, rs), nil
	}
	if l.sort != r.sort {
		return "", fmt.Errorf("equality between sorts %s and %s", l.sort, r.sort)
	}
	if l.sort == "Str" {
		return env.strEq(l.t, r.t), nil
	}
	return Eq(l.t, r.t), nil
}

// strEq: equality of byte strings. In a positive position of a goal the
// extensional form (same length, same bytes) is offered as an alternative way
// to prove it; byte strings are extensional, so the two are equivalent.
func (env *SpecEnv) strEq(a, b string) string {
	if a == b {
		return "true"
	}
	if env.pol != 1 {
		return Eq(a, b)
	}
	// the extensional route only helps when a side is built from memory or by
	// slicing/concatenation; between opaque values it only burdens the solver
	structural := func(t string) bool {
		return strings.HasPrefix(t, "(content ") || strings.HasPrefix(t, "(ssub ") || strings.HasPrefix(t, "(scat ")
	}
	if !structural(a) && !structural(b) {
		return Eq(a, b)
	}
	return fmt.Sprintf("(or (= %s %s) (and (= (slen %s) (slen %s)) (forall ((ei Int)) (! (=> (and (<= 0 ei) (< ei (slen %s))) (= (sat %s ei) (sat %s ei))) :pattern ((sat %s ei)) :pattern ((sat %s ei))))))", a, b, a, b, a, a, b, a, b)
}

// evalGoal evaluates a clause that is to be proved (positive polarity).
func (env *SpecEnv) evalGoal(e Expr) (string, error) {
	saved := env.pol
	env.pol = 1
	g, err := env.evalBool(e)
	env.pol = saved
	return g, err
}

func (env *SpecEnv) evalIn(l, r sval) (sval, error) {
	f := env.f
	if r.typ != nil {
		switch u := r.typ.Underlying().(type) {
		case *types.Slice:
			h := f.heap(env.state(), heapName(u.Elem()))
			if _, ok := u.Elem().Underlying().(*types.Struct); ok {
				return sval{}, fmt.Errorf("'in' on slice of structs")
			}
			return sval{t: fmt.Sprintf("(exists ((qi Int)) (! (and (<= 0 qi) (< qi (slen_ %s)) (= (select %s (selem %s qi)) %s)) :pattern ((selem %s qi))))", r.t, h, r.t, l.t, r.t), sort: "Bool"}, nil
		case *types.Map:
			d, _ := mapHeaps(f.ctx, u)
			return sval{t: fmt.Sprintf("(and (not (= %s nil)) (select (select %s %s) %s))", r.t, f.heap(env.state(), d), r.t, l.t), sort: "Bool"}, nil
		}
	}
	return sval{}, fmt.Errorf("'in' needs a slice or map on the right")
}

func derefNamedStruct(t types.Type) (*types.Struct, types.Type, bool) {
	if p, ok := t.Underlying().(*types.Pointer); ok {
		if s, ok := p.Elem().Underlying().(*types.Struct); ok {
			return s, p.Elem(), true
		}
	}
	return nil, nil, false
}

func (env *SpecEnv) evalSel(x *ESel) (sval, error) {
	f := env.f
	// package-qualified name?
	if id, ok := x.X.(*EIdent); ok {
		if _, isVar := env.vars[id.Name]; !isVar {
			if _, isMem := env.pkgMember(env.pkg, id.Name); !isMem {
				if p := env.importedPkg(id.Name); p != nil {
					if v, ok := env.pkgMember(p, x.Name); ok {
						return v, nil
					}
					return sval{}, fmt.Errorf("package %s has no member %s", id.Name, x.Name)
				}
			}
		}
	}
	// a field of a struct stored in memory (slice element, struct-typed field): read the field's own
	// cell instead of building the struct value and projecting it (same value; the term has the
	// shape the code's loads have, so instantiation patterns meet it)
	if addr, at, ok := env.addrOf(x.X); ok {
		if st, isStruct := at.Underlying().(*types.Struct); isStruct {
			if path, ft, ok := findField(st, x.Name); ok {
				fa := addrPath(addr, path)
				lv := f.load(env.state(), fa, ft)
				if nt, isNamed := at.(*types.Named); isNamed && len(path) == 1 && env.qdepth == 0 {
					f.initOnlyFact(env.state(), addr, nt, path[0], fa, lv, ft)
				}
				return env.sv(lv, ft), nil
			}
		}
	}
	v, err := env.eval(x.X)
	if err != nil {
		return sval{}, err
	}
	if v.typ == nil {
		return sval{}, fmt.Errorf("selector .%s on untyped spec value %s", x.Name, x.X.exprString())
	}
	if st, elem, ok := derefNamedStruct(v.typ); ok {
		path, ft, ok := findField(st, x.Name)
		if !ok {
			return sval{}, fmt.Errorf("type %s has no field %s", elem, x.Name)
		}
		addr := addrPath(v.t, path)
		lv := f.load(env.state(), addr, ft)
		if env.qdepth == 0 {
			// every value held in a typed slot satisfies its type's facts
			switch ft.Underlying().(type) {
			case *types.Pointer, *types.Map, *types.Chan, *types.Slice, *types.Interface:
				f.ctx.Fact(f.ctx.typeFacts(lv, ft, ""))
			}
			if nt, isNamed := elem.(*types.Named); isNamed && len(path) == 1 {
				f.initOnlyFact(env.state(), v.t, nt, path[0], addr, lv, ft)
			}
		}
		return env.sv(lv, ft), nil
	}
	if st, ok := v.typ.Underlying().(*types.Struct); ok {
		path, ft, ok := findField(st, x.Name)
		if !ok || len(path) != 1 {
			return sval{}, fmt.Errorf("struct has no direct field %s", x.Name)
		}
		si := f.ctx.structInfoOf(v.typ)
		return env.sv("("+si.sels[path[0]]+" "+v.t+")", ft), nil
	}
	return sval{}, fmt.Errorf("selector .%s on %s", x.Name, v.typ)
}

// addrOf: the address of the struct-typed storage location e denotes, when e is an element of a
// slice of structs (s[i]) or a struct-typed field reached through a pointer (p.f, p.f.g).
func (env *SpecEnv) addrOf(e Expr) (string, types.Type, bool) {
	switch x := e.(type) {
	case *EIndex:
		if id, ok := x.X.(*EIdent); ok {
			if _, isVar := env.vars[id.Name]; !isVar {
				if _, isGhost := ghostHeaps[id.Name]; isGhost {
					return "", nil, false
				}
			}
		}
		v, err := env.eval(x.X)
		if err != nil || v.typ == nil {
			return "", nil, false
		}
		sl, ok := v.typ.Underlying().(*types.Slice)
		if !ok {
			return "", nil, false
		}
		if _, isStruct := sl.Elem().Underlying().(*types.Struct); !isStruct {
			return "", nil, false
		}
		i, err := env.eval(x.I)
		if err != nil {
			return "", nil, false
		}
		return fmt.Sprintf("(selem %s %s)", v.t, i.t), sl.Elem(), true
	case *ESel:
		if id, ok := x.X.(*EIdent); ok {
			if _, isVar := env.vars[id.Name]; !isVar {
				return "", nil, false // package-qualified name
			}
		}
		var baseAddr string
		var st *types.Struct
		if a, at, ok := env.addrOf(x.X); ok {
			s, isStruct := at.Underlying().(*types.Struct)
			if !isStruct {
				return "", nil, false
			}
			baseAddr, st = a, s
		} else {
			v, err := env.eval(x.X)
			if err != nil || v.typ == nil {
				return "", nil, false
			}
			s, _, ok := derefNamedStruct(v.typ)
			if !ok {
				return "", nil, false
			}
			baseAddr, st = v.t, s
		}
		path, ft, ok := findField(st, x.Name)
		if !ok {
			return "", nil, false
		}
		if _, isStruct := ft.Underlying().(*types.Struct); !isStruct {
			return "", nil, false
		}
		return addrPath(baseAddr, path), ft, true
	}
	return "", nil, false
}

// findField finds a (possibly promoted) field by name.
func findField(st *types.Struct, name string) ([]int, types.Type, bool) {
	for i := 0; i < st.NumFields(); i++ {
		if st.Field(i).Name() == name {
			return []int{i}, st.Field(i).Type(), true
		}
	}
	for i := 0; i < st.NumFields(); i++ {
		fl := st.Field(i)
		if fl.Embedded() {
			if inner, ok := fl.Type().Underlying().(*types.Struct); ok {
				if p, t, ok := findField(inner, name); ok {
					return append([]int{i}, p...), t, true
				}
			}
		}
	}
	return nil, nil, false
}

func (env *SpecEnv) evalIndex(x *EIndex) (sval, error) {
	f := env.f
	// ghost heap read: name[key]
	if id, ok := x.X.(*EIdent); ok {
		if _, isVar := env.vars[id.Name]; !isVar {
			if gs, ok := ghostHeaps[id.Name]; ok {
				k, err := env.eval(x.I)
				if err != nil {
					return sval{}, err
				}
				if k.sort != gs[0] {
					return sval{}, fmt.Errorf("ghost heap %s: key has sort %s, want %s", id.Name, k.sort, gs[0])
				}
				h := f.heap(env.state(), "G_"+id.Name)
				return sval{t: fmt.Sprintf("(select %s %s)", h, k.t), sort: gs[1]}, nil
			}
		}
	}
	v, err := env.eval(x.X)
	if err != nil {
		return sval{}, err
	}
	i, err := env.eval(x.I)
	if err != nil {
		return sval{}, err
	}
	if v.sort == "Str" {
		return sval{t: fmt.Sprintf("(sat %s %s)", v.t, i.t), sort: "Int"}, nil
	}
	if v.typ == nil {
		if v.sort == "Slice" {
			return sval{t: fmt.Sprintf("(select %s (selem %s %s))", f.heap(env.state(), "H_uint8"), v.t, i.t), sort: "Int"}, nil
		}
		return sval{}, fmt.Errorf("index on untyped %s", v.sort)
	}
	switch u := v.typ.Underlying().(type) {
	case *types.Slice:
		return env.sv(f.load(env.state(), fmt.Sprintf("(selem %s %s)", v.t, i.t), u.Elem()), u.Elem()), nil
	case *types.Array:
		return env.sv(fmt.Sprintf("(select %s %s)", v.t, i.t), u.Elem()), nil
	case *types.Map:
		_, vn := mapHeaps(f.ctx, u)
		d, _ := mapHeaps(f.ctx, u)
		if env.inTrig {
			// inside an instantiation pattern: the bare value-heap read (patterns admit no connectives)
			return env.sv(fmt.Sprintf("(select (select %s %s) %s)", f.heap(env.state(), vn), v.t, i.t), u.Elem()), nil
		}
		in := fmt.Sprintf("(and (not (= %s nil)) (select (select %s %s) %s))", v.t, f.heap(env.state(), d), v.t, i.t)
		return env.sv(fmt.Sprintf("(ite %s (select (select %s %s) %s) %s)", in, f.heap(env.state(), vn), v.t, i.t, f.ctx.zero(u.Elem())), u.Elem()), nil
	case *types.Pointer:
		if arr, ok := u.Elem().Underlying().(*types.Array); ok {
			return env.sv(f.load(env.state(), fmt.Sprintf("(elemp %s %s)", v.t, i.t), arr.Elem()), arr.Elem()), nil
		}
	}
	return sval{}, fmt.Errorf("index on %s", v.typ)
}

func (env *SpecEnv) evalCall(x *ECall) (sval, error) {
	f := env.f
	ctx := f.ctx
	// builtins and spec functions by bare name
	if id, ok := x.Fun.(*EIdent); ok {
		switch id.Name {
		case "len", "cap":
			if len(x.Args) != 1 {
				return sval{}, fmt.Errorf("len takes one argument")
			}
			v, err := env.eval(x.Args[0])
			if err != nil {
				return sval{}, err
			}
			switch v.sort {
			case "Str":
				return sval{t: "(slen " + v.t + ")", sort: "Int"}, nil
			case "Slice":
				if id.Name == "cap" {
					return sval{t: "(scap " + v.t + ")", sort: "Int"}, nil
				}
				return sval{t: "(slen_ " + v.t + ")", sort: "Int"}, nil
			case "Ptr":
				if v.typ != nil {
					if mt, ok := v.typ.Underlying().(*types.Map); ok {
						return sval{t: fmt.Sprintf("(ite (= %s nil) 0 (select %s %s))", v.t, f.heap(env.state(), mapLenHeap(f.ctx, mt)), v.t), sort: "Int"}, nil
					}
				}
			}
			if v.typ != nil {
				if a, ok := v.typ.Underlying().(*types.Array); ok {
					return sval{t: fmt.Sprint(a.Len()), sort: "Int"}, nil
				}
			}
			return sval{}, fmt.Errorf("len of sort %s", v.sort)
		case "ite", "min", "max":
			want := 2
			if id.Name == "ite" {
				want = 3
			}
			if len(x.Args) != want {
				return sval{}, fmt.Errorf("%s takes %d arguments", id.Name, want)
			}
			var vs []sval
			for _, a := range x.Args {
				v, err := env.eval(a)
				if err != nil {
					return sval{}, err
				}
				vs = append(vs, v)
			}
			switch id.Name {
			case "ite":
				if vs[0].sort != "Bool" || vs[1].sort != vs[2].sort {
					return sval{}, fmt.Errorf("ite(cond, a, b): cond must be Bool and a, b of one sort")
				}
				return sval{t: fmt.Sprintf("(ite %s %s %s)", vs[0].t, vs[1].t, vs[2].t), sort: vs[1].sort, typ: vs[1].typ}, nil
			case "min":
				return sval{t: fmt.Sprintf("(ite (<= %s %s) %s %s)", vs[0].t, vs[1].t, vs[0].t, vs[1].t), sort: "Int"}, nil
			default:
				return sval{t: fmt.Sprintf("(ite (>= %s %s) %s %s)", vs[0].t, vs[1].t, vs[0].t, vs[1].t), sort: "Int"}, nil
			}
		case "content":
			v, err := env.eval(x.Args[0])
			if err != nil {
				return sval{}, err
			}
			s, err := env.asStr(v)
			return sval{t: s, sort: "Str"}, err
		case "fresh":
			v, err := env.eval(x.Args[0])
			if err != nil {
				return sval{}, err
			}
			switch v.sort {
			case "Ptr":
				return sval{t: fmt.Sprintf("(and (not (= %s nil)) (>= (pobj %s) %s))", v.t, v.t, env.old.alloc), sort: "Bool"}, nil
			case "Slice":
				return sval{t: fmt.Sprintf("(or (= (sbase %s) nil) (>= (pobj (sbase %s)) %s))", v.t, v.t, env.old.alloc), sort: "Bool"}, nil
			}
			return sval{}, fmt.Errorf("fresh of sort %s", v.sort)
		case "istype", "unboxed":
			// istype(x, T): the dynamic type of interface value x is the concrete type T.
			// unboxed(x, T): the value of type T held by x (meaningful when istype(x, T)).
			if len(x.Args) != 2 {
				return sval{}, fmt.Errorf("%s takes (value, Type)", id.Name)
			}
			v, err := env.eval(x.Args[0])
			if err != nil {
				return sval{}, err
			}
			if v.sort != "Iface" {
				return sval{}, fmt.Errorf("%s: value is not an interface", id.Name)
			}
			t, err := env.resolveType(x.Args[1])
			if err != nil {
				return sval{}, err
			}
			tid := f.ctx.useTypeID(f.eng, t)
			if id.Name == "istype" {
				return sval{t: fmt.Sprintf("(= (ityp %s) %d)", v.t, tid), sort: "Bool"}, nil
			}
			_, unbox := f.ctx.boxFns(f.ctx.sortOf(t))
			return env.sv(fmt.Sprintf("(%s (ival %s))", unbox, v.t), t), nil
		case "deref":
			// deref(p): the value stored at pointer p (current heap)
			if len(x.Args) != 1 {
				return sval{}, fmt.Errorf("deref takes one argument")
			}
			v, err := env.eval(x.Args[0])
			if err != nil {
				return sval{}, err
			}
			if v.typ == nil {
				return sval{}, fmt.Errorf("deref of untyped value")
			}
			pt, ok := v.typ.Underlying().(*types.Pointer)
			if !ok {
				return sval{}, fmt.Errorf("deref of non-pointer %s", v.typ)
			}
			return env.sv(f.load(env.state(), v.t, pt.Elem()), pt.Elem()), nil
		case "isobj":
			// isobj(p): p (of static type *T, T a named struct) addresses a whole, separately
			// allocated T object (not a field or element of another object)
			if len(x.Args) != 1 {
				return sval{}, fmt.Errorf("isobj takes one argument")
			}
			v, err := env.eval(x.Args[0])
			if err != nil {
				return sval{}, err
			}
			var nt *types.Named
			if v.typ != nil {
				if pt, ok := v.typ.Underlying().(*types.Pointer); ok {
					nt, _ = pt.Elem().(*types.Named)
				}
			}
			if v.sort != "Ptr" || nt == nil {
				return sval{}, fmt.Errorf("isobj needs a pointer to a named struct type")
			}
			// ... that exists in the state the expression is evaluated in
			return sval{t: fmt.Sprintf("(and (not (= %s nil)) (= (ppath %s) here) (= (objtype (pobj %s)) %d) (< (pobj %s) %s) (not (ismapobj (pobj %s))))", v.t, v.t, v.t, f.eng.typeID(nt), v.t, env.state().alloc, v.t), sort: "Bool"}, nil
		case "wholeobj":
			// wholeobj(p): p addresses a whole variable/object (not a field or element of one)
			if len(x.Args) != 1 {
				return sval{}, fmt.Errorf("wholeobj takes one argument")
			}
			v, err := env.eval(x.Args[0])
			if err != nil {
				return sval{}, err
			}
			if v.sort != "Ptr" {
				return sval{}, fmt.Errorf("wholeobj of non-pointer")
			}
			return sval{t: fmt.Sprintf("(and (not (= %s nil)) (= (ppath %s) here))", v.t, v.t), sort: "Bool"}, nil
		case "sliceobj":
			// sliceobj(s): identity of the backing array of slice s (two slices with different
			// sliceobj never share elements)
			if len(x.Args) != 1 {
				return sval{}, fmt.Errorf("sliceobj takes one argument")
			}
			v, err := env.eval(x.Args[0])
			if err != nil {
				return sval{}, err
			}
			if v.sort != "Slice" {
				return sval{}, fmt.Errorf("sliceobj of non-slice")
			}
			return sval{t: fmt.Sprintf("(pobj (sbase %s))", v.t), sort: "Int"}, nil
		case "structobj":
			// structobj(p): p points into an ordinary object (struct, array, variable), not a
			// map or channel runtime object — needed to frame it against writes to maps
			if len(x.Args) != 1 {
				return sval{}, fmt.Errorf("structobj takes one argument")
			}
			v, err := env.eval(x.Args[0])
			if err != nil {
				return sval{}, err
			}
			if v.sort != "Ptr" {
				return sval{}, fmt.Errorf("structobj of non-pointer")
			}
			return sval{t: fmt.Sprintf("(not (ismapobj (pobj %s)))", v.t), sort: "Bool"}, nil
		case "dom":
			// dom(m, k): the bare membership term of key k in map m (for use as a trigger)
			if len(x.Args) != 2 {
				return sval{}, fmt.Errorf("dom takes (map, key)")
			}
			mv, err := env.eval(x.Args[0])
			if err != nil {
				return sval{}, err
			}
			kv, err := env.eval(x.Args[1])
			if err != nil {
				return sval{}, err
			}
			mt, ok := mv.typ.Underlying().(*types.Map)
			if mv.typ == nil || !ok {
				return sval{}, fmt.Errorf("dom: first argument is not a map")
			}
			d, _ := mapHeaps(f.ctx, mt)
			return sval{t: fmt.Sprintf("(select (select %s %s) %s)", f.heap(env.state(), d), mv.t, kv.t), sort: "Bool"}, nil
		case "atlock":
			// atlock(e): e evaluated in the state right after the most recent Lock
			// (guarded fields havocked, lock invariant assumed) of this function.
			if len(x.Args) != 1 {
				return sval{}, fmt.Errorf("atlock takes one argument")
			}
			snap := f.top.lastLockSnap
			if ps := env.st.snaps["#last"]; ps != nil && !env.inOld {
				snap = ps // the most recent Lock on the path being evaluated
			}
			if snap == nil {
				snap = env.old
			}
			saved, savedOld := env.st, env.inOld
			env.st, env.inOld = snap, false
			v, err := env.eval(x.Args[0])
			env.st, env.inOld = saved, savedOld
			if err != nil {
				return v, err
			}
			if lr := f.top.lastLockReach; lr != "" && lr != "true" {
				// on a path that never took the lock, atlock(e) is e as it is now
				cur, err := env.eval(x.Args[0])
				if err != nil {
					return cur, err
				}
				v.t = Ite(lr, v.t, cur.t)
			}
			return v, nil
		case "atcall":
			// atcall(anchor, e): e evaluated in the state just before the (dominating) call site
			// that an `assert at call anchor` clause of this contract is attached to.
			if len(x.Args) != 2 {
				return sval{}, fmt.Errorf("atcall takes (anchor, expr)")
			}
			snap := f.top.callSnaps[x.Args[0].exprString()]
			if snap == nil {
				return sval{}, fmt.Errorf("atcall: no call site %q with an assert seen before this point", x.Args[0].exprString())
			}
			saved, savedOld := env.st, env.inOld
			env.st, env.inOld = snap, false
			shadow := map[string]*sval{}
			for k, v := range f.top.callArgs[x.Args[0].exprString()] {
				if o, ok := env.vars[k]; ok {
					oc := o
					shadow[k] = &oc
				} else {
					shadow[k] = nil
				}
				env.vars[k] = v
			}
			v, err := env.eval(x.Args[1])
			for k, o := range shadow {
				if o == nil {
					delete(env.vars, k)
				} else {
					env.vars[k] = *o
				}
			}
			env.st, env.inOld = saved, savedOld
			return v, err
		case "rangeseen":
			// rangeseen(k): in an invariant of a loop that ranges over a map, the range has
			// produced key k in an earlier iteration (rangeseen.go)
			if len(x.Args) != 1 {
				return sval{}, fmt.Errorf("rangeseen takes one argument (a key)")
			}
			if env.rangeSeen == "" {
				return sval{}, fmt.Errorf("rangeseen: not in an invariant of a loop that ranges over a map")
			}
			kv, err := env.eval(x.Args[0])
			if err != nil {
				return sval{}, err
			}
			return sval{t: fmt.Sprintf("(select %s %s)", f.heap(env.state(), env.rangeSeen), kv.t), sort: "Bool"}, nil
		case "called":
			// called(anchor): the execution came through a call of a function named like the anchor
			// (path-sensitive; for exit clauses; call sites outside loops only)
			if len(x.Args) != 1 {
				return sval{}, fmt.Errorf("called takes one argument (a callee name as in 'assert at call')")
			}
			// the name may be given as a string literal (closure names contain '$')
			c, err := f.calledCond(strings.Trim(x.Args[0].exprString(), "\""))
			if err != nil {
				return sval{}, err
			}
			return sval{t: c, sort: "Bool"}, nil
		case "held":
			// held(x.mu): the current goroutine holds mutex field mu of object x
			if len(x.Args) != 1 {
				return sval{}, fmt.Errorf("held takes one argument x.mu")
			}
			sel, ok := x.Args[0].(*ESel)
			if !ok {
				return sval{}, fmt.Errorf("held takes x.mu")
			}
			ov, err := env.eval(sel.X)
			if err != nil {
				return sval{}, err
			}
			nt, ok := derefNamed(ov.typ)
			if ov.typ == nil || !ok || nt.Obj().Pkg() == nil {
				return sval{}, fmt.Errorf("held: %s is not a pointer to a named struct", sel.X.exprString())
			}
			gd := f.eng.CS.Guards[nt.Obj().Pkg().Path()+"."+nt.Obj().Name()+"."+sel.Name]
			if gd == nil {
				return sval{}, fmt.Errorf("held: no guards declaration for %s.%s", nt.Obj().Name(), sel.Name)
			}
			return sval{t: fmt.Sprintf("(select %s %s)", f.heap(env.state(), heldHeap(gd)), ov.t), sort: "Bool"}, nil
		case "sameElems":
			// sameElems(a, b): slices a and b hold equal elements (same length assumed by the caller)
			if len(x.Args) != 2 {
				return sval{}, fmt.Errorf("sameElems takes two arguments")
			}
			a, err := env.eval(x.Args[0])
			if err != nil {
				return sval{}, err
			}
			b, err := env.eval(x.Args[1])
			if err != nil {
				return sval{}, err
			}
			if a.sort != "Slice" || b.sort != "Slice" || a.typ == nil {
				return sval{}, fmt.Errorf("sameElems needs two typed slices")
			}
			if isByteSlice(a.typ) {
				as, _ := env.asStr(a)
				bs, _ := env.asStr(b)
				return sval{t: env.strEq(as, bs), sort: "Bool"}, nil
			}
			et := a.typ.Underlying().(*types.Slice).Elem()
			var conj []string
			for _, lf := range leaves(et) {
				if _, ok := lf.typ.Underlying().(*types.Array); ok {
					continue
				}
				h := f.heap(env.state(), heapName(lf.typ))
				pa := addrPath(fmt.Sprintf("(selem %s ei)", a.t), lf.path)
				pb := addrPath(fmt.Sprintf("(selem %s ei)", b.t), lf.path)
				conj = append(conj, fmt.Sprintf("(forall ((ei Int)) (! (=> (and (<= 0 ei) (< ei (slen_ %s))) (= (select %s %s) (select %s %s))) :pattern ((select %s %s))))", a.t, h, pa, h, pb, h, pa))
			}
			return sval{t: And(conj...), sort: "Bool"}, nil
		case "same":
			// same(a, b): identical values (for slices: same backing store,
			// offset, length and capacity — not just equal contents).
			if len(x.Args) != 2 {
				return sval{}, fmt.Errorf("same takes two arguments")
			}
			a, err := env.eval(x.Args[0])
			if err != nil {
				return sval{}, err
			}
			b, err := env.eval(x.Args[1])
			if err != nil {
				return sval{}, err
			}
			if a.sort != b.sort {
				return sval{}, fmt.Errorf("same: sorts %s and %s differ", a.sort, b.sort)
			}
			return sval{t: Eq(a.t, b.t), sort: "Bool"}, nil
		case "isnil":
			v, err := env.eval(x.Args[0])
			if err != nil {
				return sval{}, err
			}
			eq, err := env.equal(v, sval{t: "nil", sort: "Nil"})
			return sval{t: eq, sort: "Bool"}, err
		case "as", "implements":
			// as(x, I): the interface value x viewed at interface type I.
			// implements(x, I): dynamic type of x implements I.
			if len(x.Args) != 2 {
				return sval{}, fmt.Errorf("%s takes (value, Type)", id.Name)
			}
			v, err := env.eval(x.Args[0])
			if err != nil {
				return sval{}, err
			}
			t, err := env.resolveType(x.Args[1])
			if err != nil {
				return sval{}, err
			}
			if v.sort != "Iface" {
				return sval{}, fmt.Errorf("%s: value is not an interface", id.Name)
			}
			if _, ok := t.Underlying().(*types.Interface); !ok {
				return sval{}, fmt.Errorf("%s: %s is not an interface type", id.Name, t)
			}
			if id.Name == "as" {
				return sval{t: v.t, sort: "Iface", typ: t}, nil
			}
			iid := f.ctx.useIfaceID(f.eng, t)
			return sval{t: fmt.Sprintf("(implements (ityp %s) %d)", v.t, iid), sort: "Bool"}, nil
		case "samegetters":
			// samegetters(d, other, I): other implements I and every
			// parameterless single-result method that I adds to the interfaces
			// it embeds returns equal values on d and on other (byte slices by
			// content). Generated from the type, so a new getter extends it.
			if len(x.Args) != 3 {
				return sval{}, fmt.Errorf("samegetters takes (d, other, Iface)")
			}
			t, err := env.resolveType(x.Args[2])
			if err != nil {
				return sval{}, err
			}
			it, ok := t.Underlying().(*types.Interface)
			if !ok {
				return sval{}, fmt.Errorf("samegetters: %s is not an interface", t)
			}
			conj := []Expr{&ECall{&EIdent{"implements"}, []Expr{x.Args[1], x.Args[2]}}}
			n := 0
			for i := 0; i < it.NumExplicitMethods(); i++ {
				m := it.ExplicitMethod(i)
				sig := m.Type().(*types.Signature)
				if sig.Params().Len() != 0 || sig.Results().Len() != 1 {
					continue
				}
				n++
				l := &ECall{&ESel{x.Args[0], m.Name()}, nil}
				r := &ECall{&ESel{&ECall{&EIdent{"as"}, []Expr{x.Args[1], x.Args[2]}}, m.Name()}, nil}
				conj = append(conj, &EBin{"==", l, r})
			}
			if n == 0 {
				return sval{}, fmt.Errorf("samegetters: %s declares no getters", t)
			}
			var all Expr = conj[0]
			for _, c := range conj[1:] {
				all = &EBin{"&&", all, c}
			}
			return env.eval(all)
		case "dyntype":
			// dyntype(x) == dyntype(y): dynamic type id of an interface value
			v, err := env.eval(x.Args[0])
			if err != nil {
				return sval{}, err
			}
			if v.sort != "Iface" {
				return sval{}, fmt.Errorf("dyntype of non-interface")
			}
			return sval{t: "(ityp " + v.t + ")", sort: "Int"}, nil
		}
		if sf, ok := f.eng.CS.SpecFns[id.Name]; ok {
			return env.applySpecFun(sf, x.Args)
		}
		// package-level Go function of the current package
		if env.pkg != nil {
			if fn := env.pkg.Func(id.Name); fn != nil {
				return env.callGo(fn, nil, x.Args)
			}
		}
		return sval{}, fmt.Errorf("unknown function %q", id.Name)
	}
	if sel, ok := x.Fun.(*ESel); ok {
		// pkg.Func(...)
		if id, ok := sel.X.(*EIdent); ok {
			if _, isVar := env.vars[id.Name]; !isVar {
				if p := env.importedPkg(id.Name); p != nil {
					if fn := p.Func(sel.Name); fn != nil {
						return env.callGo(fn, nil, x.Args)
					}
				}
			}
		}
		// method call
		recv, err := env.eval(sel.X)
		if err != nil {
			return sval{}, err
		}
		if recv.typ == nil {
			return sval{}, fmt.Errorf("method call on untyped spec value")
		}
		if _, isIface := recv.typ.Underlying().(*types.Interface); isIface {
			obj, _, _ := types.LookupFieldOrMethod(recv.typ, true, nil, sel.Name)
			m, ok := obj.(*types.Func)
			if !ok {
				// unexported methods need the package
				if n, ok2 := recv.typ.(*types.Named); ok2 {
					obj, _, _ = types.LookupFieldOrMethod(recv.typ, true, n.Obj().Pkg(), sel.Name)
					m, ok = obj.(*types.Func)
				}
			}
			if !ok {
				return sval{}, fmt.Errorf("interface %s has no method %s", recv.typ, sel.Name)
			}
			sig := m.Type().(*types.Signature)
			var args []string
			for _, a := range x.Args {
				av, err := env.eval(a)
				if err != nil {
					return sval{}, err
				}
				args = append(args, av.t)
			}
			res := f.pureMethodResults(m, sig, recv.t, args)
			if len(res) != 1 {
				return sval{}, fmt.Errorf("method %s must have one result to be used in a contract", sel.Name)
			}
			out := env.sv(res[0], sig.Results().At(0).Type())
			if isByteSlice(sig.Results().At(0).Type()) && len(args) == 0 {
				out.str = f.getterBytes(m, recv.t)
			}
			return out, nil
		}
		// concrete method: inline
		var pkg *types.Package
		if env.pkg != nil {
			pkg = env.pkg.Pkg
		}
		if n, ok := derefNamed(recv.typ); ok {
			pkg = n.Obj().Pkg()
		}
		obj, _, _ := types.LookupFieldOrMethod(recv.typ, true, pkg, sel.Name)
		m, ok := obj.(*types.Func)
		if !ok {
			return sval{}, fmt.Errorf("type %s has no method %s", recv.typ, sel.Name)
		}
		fn := f.eng.Prog.SSA.FuncValue(m)
		if fn == nil {
			return sval{}, fmt.Errorf("no SSA for method %s", m.FullName())
		}
		return env.callGo(fn, &recv, x.Args)
	}
	_ = ctx
	return sval{}, fmt.Errorf("cannot call %s", x.Fun.exprString())
}

// resolveType resolves a type name expression (T or pkg.T) in the contract's package.
func (env *SpecEnv) resolveType(e Expr) (types.Type, error) {
	switch x := e.(type) {
	case *EIdent:
		if env.pkg != nil {
			if obj := env.pkg.Pkg.Scope().Lookup(x.Name); obj != nil {
				if tn, ok := obj.(*types.TypeName); ok {
					return tn.Type(), nil
				}
			}
		}
		return nil, fmt.Errorf("unknown type %q", x.Name)
	case *ESel:
		if id, ok := x.X.(*EIdent); ok {
			if p := env.importedPkg(id.Name); p != nil {
				if obj := p.Pkg.Scope().Lookup(x.Name); obj != nil {
					if tn, ok := obj.(*types.TypeName); ok {
						return tn.Type(), nil
					}
				}
			}
		}
	case *ECall:
		// ptr(T): pointer to T
		if id, ok := x.Fun.(*EIdent); ok && id.Name == "ptr" && len(x.Args) == 1 {
			t, err := env.resolveType(x.Args[0])
			if err != nil {
				return nil, err
			}
			return types.NewPointer(t), nil
		}
	}
	return nil, fmt.Errorf("cannot resolve type %s", e.exprString())
}

func derefNamed(t types.Type) (*types.Named, bool) {
	if p, ok := t.(*types.Pointer); ok {
		t = p.Elem()
	}
	n, ok := t.(*types.Named)
	return n, ok
}

// callGo evaluates a Go function inside a contract: the callee must not write
// any heap (checked), and is executed inline in the environment's state.
func (env *SpecEnv) callGo(fn *ssa.Function, recv *sval, argExprs []Expr) (sval, error) {
	f := env.f
	if fn.Blocks == nil {
		return sval{}, fmt.Errorf("function %s has no body", fn.Name())
	}
	w := f.eng.writesOf(f.ctx, fn)
	if w.All || len(w.Heaps) > 0 {
		return sval{}, fmt.Errorf("function %s used in a contract is not pure", FuncName(fn))
	}
	if fn.Signature.Results().Len() != 1 {
		return sval{}, fmt.Errorf("function %s used in a contract must have one result", FuncName(fn))
	}
	var args []string
	if recv != nil {
		// receiver may need address-of / deref adjustments; we only support exact match
		args = append(args, recv.t)
	}
	for _, a := range argExprs {
		v, err := env.eval(a)
		if err != nil {
			return sval{}, err
		}
		args = append(args, v.t)
	}
	if len(args) != len(fn.Params) {
		return sval{}, fmt.Errorf("function %s: %d args for %d params", fn.Name(), len(args), len(fn.Params))
	}
	st := env.state().clone()
	// run inline without emitting obligations: use a scratch frame whose
	// obligations are discarded.
	nob := len(f.ctx.Oblig)
	res := f.inlineCall(fn, args, nil, env.reach, st)
	f.ctx.Oblig = f.ctx.Oblig[:nob]
	return env.sv(res[0], fn.Signature.Results().At(0).Type()), nil
}

func (env *SpecEnv) applySpecFun(sf *SpecFun, argExprs []Expr) (sval, error) {
	f := env.f
	if len(argExprs) != len(sf.Params) {
		return sval{}, fmt.Errorf("spec fun %s: %d args for %d params", sf.Name, len(argExprs), len(sf.Params))
	}
	var args []string
	var psorts []string
	var atyps []types.Type
	for i, a := range argExprs {
		v, err := env.eval(a)
		if err != nil {
			return sval{}, err
		}
		atyps = append(atyps, nil)
		ps, ok := specSort(f.ctx, sf.Params[i].Type)
		if !ok {
			return sval{}, fmt.Errorf("spec fun %s: unknown sort %s", sf.Name, sf.Params[i].Type)
		}
		psorts = append(psorts, ps)
		t := v.t
		if ps == "Str" && v.sort == "Slice" {
			t, _ = env.asStr(v)
		} else if v.sort == "Nil" {
			switch ps {
			case "Ptr":
				t = "nil"
			case "Iface":
				t = "niliface"
			case "Slice":
				t = "nilslice"
			}
		} else if ps != v.sort {
			return sval{}, fmt.Errorf("spec fun %s: argument %d has sort %s, want %s", sf.Name, i, v.sort, ps)
		} else {
			atyps[i] = v.typ // keep the Go type so the body can index/select
		}
		args = append(args, t)
	}
	rs, ok := specSort(f.ctx, sf.Ret)
	if !ok {
		return sval{}, fmt.Errorf("spec fun %s: unknown result sort %s", sf.Name, sf.Ret)
	}
	if sf.Rec {
		return env.applyRecFun(sf, args, psorts, atyps, rs)
	}
	if sf.Body != nil {
		// defined: expand in an environment with only the parameters
		sub := &SpecEnv{f: f, vars: map[string]sval{}, st: env.st, old: env.old, pkg: env.pkg, inOld: env.inOld, reach: env.reach, pol: env.pol, qdepth: env.qdepth, recLevel: env.recLevel}
		if sf.Pkg != "" {
			// names in the body resolve in the declaring package
			for _, p := range f.eng.Prog.SSA.AllPackages() {
				if p.Pkg.Path() == sf.Pkg {
					sub.pkg = p
				}
			}
		}
		for i, p := range sf.Params {
			sub.vars[p.Name] = sval{t: args[i], sort: psorts[i], typ: atyps[i]}
		}
		v, err := sub.eval(sf.Body)
		if err != nil {
			return sval{}, fmt.Errorf("spec fun %s: %v", sf.Name, err)
		}
		return sval{t: v.t, sort: rs}, nil
	}
	name := "sf_" + sf.Name
	isNew := !f.ctx.declSet[name]
	f.ctx.DeclareOnce(name, fmt.Sprintf("(declare-fun %s (%s) %s)", name, strings.Join(psorts, " "), rs))
	if isNew {
		env.emitAxiomsFor(sf.Name)
	}
	if len(args) == 0 {
		return sval{t: name, sort: rs}, nil
	}
	return sval{t: "(" + name + " " + strings.Join(args, " ") + ")", sort: rs}, nil
}

// applyRecFun: a recursive spec function, defined over the state on entry to the function under
// verification. It is an uninterpreted symbol with its defining equation as an axiom that unfolds
// at most twice per term (levels 2 -> 1 -> 0, the usual fuel encoding), so the recursion cannot
// drive the solver into a matching loop. Contracts mention level 2.
func (env *SpecEnv) applyRecFun(sf *SpecFun, args, psorts []string, atyps []types.Type, rs string) (sval, error) {
	f := env.f
	lvl := func(k int) string { return fmt.Sprintf("sfr%d_%s", k, sf.Name) }
	if !f.ctx.declSet[lvl(2)] {
		for k := 0; k <= 2; k++ {
			f.ctx.DeclareOnce(lvl(k), fmt.Sprintf("(declare-fun %s (%s) %s)", lvl(k), strings.Join(psorts, " "), rs))
		}
		entry := f.top.entry
		if entry == nil {
			entry = env.old
		}
		var binders, qn []string
		for i, p := range sf.Params {
			n := fmt.Sprintf("rq!%s!%s", sf.Name, p.Name)
			qn = append(qn, n)
			binders = append(binders, fmt.Sprintf("(%s %s)", n, psorts[i]))
		}
		for k := 2; k >= 1; k-- {
			sub := &SpecEnv{f: f, vars: map[string]sval{}, st: entry, old: entry, pkg: env.pkg, reach: "true", qdepth: env.qdepth + 1, recLevel: map[string]int{sf.Name: k - 1}}
			if sf.Pkg != "" {
				for _, p := range f.eng.Prog.SSA.AllPackages() {
					if p.Pkg.Path() == sf.Pkg {
						sub.pkg = p
					}
				}
			}
			for i, p := range sf.Params {
				sub.vars[p.Name] = sval{t: qn[i], sort: psorts[i], typ: atyps[i]}
			}
			v, err := sub.eval(sf.Body)
			if err != nil {
				return sval{}, fmt.Errorf("spec fun rec %s: %v", sf.Name, err)
			}
			app := "(" + lvl(k) + " " + strings.Join(qn, " ") + ")"
			lower := "(" + lvl(k-1) + " " + strings.Join(qn, " ") + ")"
			f.ctx.Fact(fmt.Sprintf("(forall (%s) (! (and (= %s %s) (= %s %s)) :pattern (%s)))", strings.Join(binders, " "), app, v.t, app, lower, app))
		}
		f.eng.note("recursive spec function (entry state, unfolded twice per term): " + sf.Name)
	}
	k := 2
	if env.recLevel != nil {
		if l, ok := env.recLevel[sf.Name]; ok {
			k = l
		}
	}
	return sval{t: "(" + lvl(k) + " " + strings.Join(args, " ") + ")", sort: rs}, nil
}

// mentions reports the spec-function names called in e.
func mentions(e Expr, into map[string]bool) {
	switch x := e.(type) {
	case *EUn:
		mentions(x.X, into)
	case *EBin:
		mentions(x.L, into)
		mentions(x.R, into)
	case *ECall:
		if id, ok := x.Fun.(*EIdent); ok {
			into[id.Name] = true
		} else {
			mentions(x.Fun, into)
		}
		for _, a := range x.Args {
			mentions(a, into)
		}
	case *ESel:
		mentions(x.X, into)
	case *EIndex:
		mentions(x.X, into)
		mentions(x.I, into)
	case *ESlice:
		mentions(x.X, into)
		if x.Lo != nil {
			mentions(x.Lo, into)
		}
		if x.Hi != nil {
			mentions(x.Hi, into)
		}
	case *EQuant:
		mentions(x.Body, into)
	case *EOld:
		mentions(x.X, into)
	}
}

// emitAxiomsFor asserts (once per context) every axiom that mentions the
// given spec function. Axioms are closed formulas over spec functions.
func (env *SpecEnv) emitAxiomsFor(name string) {
	f := env.f
	if f.ctx.axiomsDone == nil {
		f.ctx.axiomsDone = map[string]bool{}
	}
	for i := range f.eng.CS.Axioms {
		ax := &f.eng.CS.Axioms[i]
		if f.ctx.axiomsDone[ax.Name] {
			continue
		}
		m := map[string]bool{}
		mentions(ax.E, m)
		if !m[name] {
			continue
		}
		f.ctx.axiomsDone[ax.Name] = true
		sub := &SpecEnv{f: f, vars: map[string]sval{}, st: env.st, old: env.old, pkg: nil, reach: "true"}
		g, err := sub.evalBool(ax.E)
		if err != nil {
			f.bail("axiom %s: %v", ax.Name, err)
		}
		f.ctx.Fact(g)
		f.eng.note("axiom used: " + ax.Name + ": " + ax.Text)
	}
}

// uncapturedOuter: in the contract of a closure verified on its own, a name that denotes a parameter
// or local variable of an enclosing function which the closure does not capture. The closure's
// behaviour cannot depend on it, so it stands for an arbitrary value of its type: a clause that
// mentions it must hold whatever that value is.
func (env *SpecEnv) uncapturedOuter(name string) (sval, bool) {
	f := env.f
	if f == nil || f.top == nil || f.top.fn == nil || f.top.fn.Parent() == nil {
		return sval{}, false
	}
	top := f.top
	if v, ok := top.outerVars[name]; ok {
		return v, true
	}
	for p := top.fn.Parent(); p != nil; p = p.Parent() {
		var t types.Type
		for _, prm := range p.Params {
			if prm.Name() == name {
				t = prm.Type()
			}
		}
		for _, l := range p.Locals {
			if l.Comment == name {
				t = l.Type().Underlying().(*types.Pointer).Elem()
			}
		}
		if t == nil {
			// variables captured by other closures live in heap cells
			for _, b := range p.Blocks {
				for _, in := range b.Instrs {
					if a, ok := in.(*ssa.Alloc); ok && a.Comment == name {
						t = a.Type().Underlying().(*types.Pointer).Elem()
					}
				}
			}
		}
		if t == nil {
			// SSA registers: look for a DebugRef of that name
			for _, b := range p.Blocks {
				for _, in := range b.Instrs {
					if d, ok := in.(*ssa.DebugRef); ok {
						if id, ok := d.Expr.(*ast.Ident); ok && id.Name == name && !d.IsAddr {
							t = d.X.Type()
						}
					}
				}
			}
		}
		if t != nil {
			a := f.ctx.Fresh("outer_"+name, f.ctx.sortOf(t))
			f.ctx.Fact(f.ctx.typeFacts(a, t, top.alloc0))
			f.eng.note("a variable of the enclosing function that a separately verified closure does not capture stands for an arbitrary value in the closure's contract")
			v := env.sv(a, t)
			if top.outerVars == nil {
				top.outerVars = map[string]sval{}
			}
			top.outerVars[name] = v
			return v, true
		}
	}
	return sval{}, false
}
