package vc

import (
	"fmt"
	"go/types"
	"hash/fnv"
	"regexp"
	"math/big"
	"os"
	"strings"

	"golang.org/x/tools/go/ssa"
)

// Engine holds per-run global tables shared by all function contexts.
type Engine struct {
	Prog      *Program
	CS        *Contracts
	typeIDs   map[string]int
	typeByID  []types.Type
	globalIDs map[string]int
	writeMemo map[string]*WriteSet
	writeBusy map[string]bool
	loopMemo  map[string]*loopInfo
	Notes     map[string]bool // assumptions used (collected for evidence)
	srcCache  map[string][]byte
	// immutable sentinel globals (error values assigned once at init).
	sentinelMemo map[string]bool
	inlineMemo   map[string]bool
	freshMemo    map[string]bool
	standaloneMemo map[string]bool
	globals      map[*ssa.Global]*globalInfo
	// init-only field analysis (initonly.go)
	mutableFields map[fieldKey]bool
	scannedPkgs   map[*types.Package]bool
	CheckOverflow bool

	getterIfacesDone bool
	getterIfacesList []*types.Named
}

func NewEngine(p *Program, cs *Contracts) *Engine {
	return &Engine{Prog: p, CS: cs, typeIDs: map[string]int{}, globalIDs: map[string]int{},
		writeMemo: map[string]*WriteSet{}, writeBusy: map[string]bool{}, loopMemo: map[string]*loopInfo{},
		Notes: map[string]bool{}, srcCache: map[string][]byte{}, sentinelMemo: map[string]bool{}, inlineMemo: map[string]bool{}, freshMemo: map[string]bool{}}
}

func (e *Engine) note(s string) { e.Notes[s] = true }

func (e *Engine) typeID(t types.Type) int {
	// identical types must get one id: byte and rune are aliases that print differently
	k := aliasWord.ReplaceAllStringFunc(types.TypeString(t, nil), func(w string) string {
		if w == "byte" {
			return "uint8"
		}
		return "int32"
	})
	if id, ok := e.typeIDs[k]; ok {
		return id
	}
	id := len(e.typeIDs) + 1
	e.typeIDs[k] = id
	e.typeByID = append(e.typeByID, t)
	return id
}

func (e *Engine) globalID(name string) int {
	if id, ok := e.globalIDs[name]; ok {
		return id
	}
	id := len(e.globalIDs) + 1
	e.globalIDs[name] = id
	return id
}

// intRange returns the inclusive range of an integer basic kind.
func intRange(b *types.Basic) (lo, hi *big.Int, ok bool) {
	bits, signed := 0, false
	switch b.Kind() {
	case types.Int, types.Int64:
		bits, signed = 64, true
	case types.Int8:
		bits, signed = 8, true
	case types.Int16:
		bits, signed = 16, true
	case types.Int32, types.UntypedRune:
		bits, signed = 32, true
	case types.Uint, types.Uint64, types.Uintptr:
		bits = 64
	case types.Uint8:
		bits = 8
	case types.Uint16:
		bits = 16
	case types.Uint32:
		bits = 32
	default:
		return nil, nil, false
	}
	one := big.NewInt(1)
	if signed {
		hi = new(big.Int).Lsh(one, uint(bits-1))
		lo = new(big.Int).Neg(hi)
		hi = new(big.Int).Sub(hi, one)
	} else {
		lo = big.NewInt(0)
		hi = new(big.Int).Sub(new(big.Int).Lsh(one, uint(bits)), one)
	}
	return lo, hi, true
}

func bigLit(v *big.Int) string {
	if v.Sign() < 0 {
		return "(- " + new(big.Int).Neg(v).String() + ")"
	}
	return v.String()
}

func isInteger(t types.Type) bool {
	b, ok := t.Underlying().(*types.Basic)
	return ok && b.Info()&types.IsInteger != 0
}

func isUnsigned(t types.Type) bool {
	b, ok := t.Underlying().(*types.Basic)
	return ok && b.Info()&types.IsUnsigned != 0
}

func isString(t types.Type) bool {
	b, ok := t.Underlying().(*types.Basic)
	return ok && b.Info()&types.IsString != 0
}

func isRuneSlice(t types.Type) bool {
	s, ok := t.Underlying().(*types.Slice)
	if !ok {
		return false
	}
	b, ok := s.Elem().Underlying().(*types.Basic)
	return ok && b.Kind() == types.Int32
}

func isByteSlice(t types.Type) bool {
	s, ok := t.Underlying().(*types.Slice)
	if !ok {
		return false
	}
	b, ok := s.Elem().Underlying().(*types.Basic)
	return ok && b.Kind() == types.Uint8
}

// sortOf maps a Go type to an SMT sort, declaring struct datatypes on demand.
func (c *Ctx) sortOf(t types.Type) string {
	switch u := t.Underlying().(type) {
	case *types.Basic:
		switch {
		case u.Info()&types.IsBoolean != 0:
			return "Bool"
		case u.Info()&types.IsInteger != 0:
			return "Int"
		case u.Info()&types.IsString != 0:
			return "Str"
		case u.Info()&types.IsFloat != 0:
			return "Real"
		case u.Kind() == types.UnsafePointer:
			return "Ptr"
		case u.Kind() == types.UntypedNil:
			return "Ptr"
		case u.Info()&types.IsComplex != 0:
			return "Real"
		}
		return "Int"
	case *types.Pointer, *types.Map, *types.Chan, *types.Signature:
		return "Ptr"
	case *types.Slice:
		return "Slice"
	case *types.Interface:
		return "Iface"
	case *types.Struct:
		return c.structSort(t, u)
	case *types.Array:
		return "(Array Int " + c.sortOf(u.Elem()) + ")"
	case *types.Tuple:
		return "Tuple"
	case *types.TypeParam:
		return "Iface"
	}
	return "Int"
}

type structInfo struct {
	sort string
	ctor string
	sels []string
}

func (c *Ctx) structInfoOf(t types.Type) *structInfo {
	u := t.Underlying().(*types.Struct)
	c.structSort(t, u)
	return c.structs[structKey(t, u)]
}

func structKey(t types.Type, u *types.Struct) string {
	if n, ok := t.(*types.Named); ok {
		return types.TypeString(n, nil)
	}
	if a, ok := t.(*types.Alias); ok {
		return structKey(types.Unalias(a), u)
	}
	return u.String()
}

// structTypeByName: struct sort name -> Go type (process-wide), so that a context can declare a
// struct sort it first meets inside a heap name computed by another context.
var structTypeByName = map[string]types.Type{}

var structSortRef = regexp.MustCompile(`St_[A-Za-z0-9_.]+_[0-9a-f]{8}`)

// ensureStructSorts declares the struct sorts mentioned in an SMT declaration.
func (c *Ctx) ensureStructSorts(decl string) {
	if !strings.Contains(decl, "St_") {
		return
	}
	for _, n := range structSortRef.FindAllString(decl, -1) {
		if c.structNames[n] {
			continue
		}
		if t, ok := structTypeByName[n]; ok {
			if u, isStruct := t.Underlying().(*types.Struct); isStruct {
				c.structSort(t, u)
			}
		}
	}
}

func (c *Ctx) structSort(t types.Type, u *types.Struct) string {
	if c.structs == nil {
		c.structs = map[string]*structInfo{}
	}
	k := structKey(t, u)
	if si, ok := c.structs[k]; ok {
		return si.sort
	}
	// the sort's name is a function of the type alone: heap names that embed it (maps keyed by a
	// struct) are computed once per callee and shared between verification contexts
	hsh := fnv.New32a()
	hsh.Write([]byte(k))
	name := fmt.Sprintf("St_%s_%08x", sanitizeShort(k), hsh.Sum32())
	si := &structInfo{sort: name, ctor: "mk_" + name}
	c.structs[k] = si
	structTypeByName[name] = t
	if c.structNames == nil {
		c.structNames = map[string]bool{}
	}
	c.structNames[name] = true
	var fields []string
	for i := 0; i < u.NumFields(); i++ {
		sel := fmt.Sprintf("%s_f%d", name, i)
		si.sels = append(si.sels, sel)
		fields = append(fields, fmt.Sprintf("(%s %s)", sel, c.sortOf(u.Field(i).Type())))
	}
	if len(fields) == 0 {
		c.Decls = append(c.Decls, fmt.Sprintf("(declare-datatypes ((%s 0)) (((%s))))", name, si.ctor))
	} else {
		c.Decls = append(c.Decls, fmt.Sprintf("(declare-datatypes ((%s 0)) (((%s %s))))", name, si.ctor, strings.Join(fields, " ")))
	}
	return name
}

func sanitizeShort(s string) string {
	if i := strings.LastIndex(s, "/"); i >= 0 {
		s = s[i+1:]
	}
	s = sanitize(s)
	if len(s) > 30 {
		s = s[:30]
	}
	return s
}

// zero value term of a type.
func (c *Ctx) zero(t types.Type) string {
	switch u := t.Underlying().(type) {
	case *types.Basic:
		switch c.sortOf(t) {
		case "Bool":
			return "false"
		case "Int":
			return "0"
		case "Str":
			return "str_empty"
		case "Real":
			return "0.0"
		case "Ptr":
			return "nil"
		}
		return "0"
	case *types.Pointer, *types.Map, *types.Chan, *types.Signature:
		return "nil"
	case *types.Slice:
		return "nilslice"
	case *types.Interface, *types.TypeParam:
		return "niliface"
	case *types.Struct:
		si := c.structInfoOf(t)
		if u.NumFields() == 0 {
			return si.ctor
		}
		var fs []string
		for i := 0; i < u.NumFields(); i++ {
			fs = append(fs, c.zero(u.Field(i).Type()))
		}
		return "(" + si.ctor + " " + strings.Join(fs, " ") + ")"
	case *types.Array:
		return "((as const " + c.sortOf(t) + ") " + c.zero(u.Elem()) + ")"
	}
	return "0"
}

// heapName gives the heap array that stores values of (non-composite) type t.
func heapName(t types.Type) string {
	switch u := t.Underlying().(type) {
	case *types.Basic:
		switch {
		case u.Info()&types.IsBoolean != 0:
			return "H_bool"
		case u.Info()&types.IsString != 0:
			return "H_string"
		case u.Info()&types.IsFloat != 0, u.Info()&types.IsComplex != 0:
			return "H_float"
		case u.Kind() == types.UnsafePointer:
			return "H_ptr"
		}
		switch u.Kind() {
		case types.Uint8:
			return "H_uint8"
		case types.Int, types.Int64:
			return "H_int"
		case types.Uint, types.Uint64, types.Uintptr:
			return "H_uint64"
		case types.Int32:
			return "H_int32"
		case types.Uint32:
			return "H_uint32"
		case types.Int16, types.Uint16, types.Int8:
			return "H_int16"
		}
		return "H_int"
	case *types.Pointer, *types.Map, *types.Chan, *types.Signature:
		return "H_ptr"
	case *types.Slice:
		return "H_slice"
	case *types.Interface, *types.TypeParam:
		return "H_iface"
	}
	return "H_other"
}

// ghostHeaps: ghost state declared in contracts ("ghost heap name keysort valsort"):
// sinceUnlockKey: pseudo-heap (an Int) carried in the state like the held-lock heaps: the
// allocation counter when the function last released a lock (at entry: the entry counter).
const sinceUnlockKey = "G_held|#since"

// name -> {key sort, value sort}. Filled when contracts are loaded.
var ghostHeaps = map[string][2]string{}

func heapSort(name string) string {
	if name == sinceUnlockKey {
		return "Int"
	}
	if strings.HasPrefix(name, "G_held|") {
		return "(Array Ptr Bool)"
	}
	if strings.HasPrefix(name, rangeSeenPrefix) {
		// R_seen|<key sort>|<range id>: the keys a map range has produced so far
		return "(Array " + strings.SplitN(strings.TrimPrefix(name, rangeSeenPrefix), "|", 2)[0] + " Bool)"
	}
	if strings.HasPrefix(name, "G_") {
		if gs, ok := ghostHeaps[name[2:]]; ok {
			return "(Array " + gs[0] + " " + gs[1] + ")"
		}
	}
	switch name {
	case "H_bool":
		return "(Array Ptr Bool)"
	case "H_string":
		return "(Array Ptr Str)"
	case "H_float":
		return "(Array Ptr Real)"
	case "H_ptr":
		return "(Array Ptr Ptr)"
	case "H_slice":
		return "(Array Ptr Slice)"
	case "H_iface":
		return "(Array Ptr Iface)"
	case "M_len":
		return "(Array Ptr Int)"
	}
	if strings.HasPrefix(name, "Mdom|") {
		return "(Array Ptr (Array " + strings.SplitN(strings.TrimPrefix(name, "Mdom|"), "|", 2)[0] + " Bool))"
	}
	if strings.HasPrefix(name, "Mval|") {
		parts := strings.SplitN(strings.TrimPrefix(name, "Mval|"), "|", 2)
		return "(Array Ptr (Array " + parts[0] + " " + parts[1] + "))"
	}
	return "(Array Ptr Int)"
}

// leaf describes one scalar storage location inside a composite value.
type leaf struct {
	path []int // field indexes from the composite's address (only structs; arrays stop decomposition)
	typ  types.Type
}

// leaves enumerates the scalar (non-struct) storage locations of type t.
// Arrays are treated as leaves here and handled by callers.
func leaves(t types.Type) []leaf {
	var out []leaf
	var walk func(t types.Type, path []int)
	walk = func(t types.Type, path []int) {
		if s, ok := t.Underlying().(*types.Struct); ok {
			for i := 0; i < s.NumFields(); i++ {
				walk(s.Field(i).Type(), append(append([]int{}, path...), i))
			}
			return
		}
		out = append(out, leaf{path, t})
	}
	walk(t, nil)
	return out
}

func addrPath(base string, path []int) string {
	for _, i := range path {
		base = fmt.Sprintf("(fldp %s %d)", base, i)
	}
	return base
}

// objTypeFact: the object holding p was allocated as an et. Named struct types have positive
// identifiers; every other allocation (variables of other types, arrays, slice backing stores)
// has objtype <= 0, so it is never mistaken for an object of a lock-protected struct type.
func (e *Engine) objTypeFact(p string, et types.Type) string {
	if nt, ok := et.(*types.Named); ok {
		if _, isStruct := nt.Underlying().(*types.Struct); isStruct {
			return fmt.Sprintf("(= (objtype (pobj %s)) %d)", p, e.typeID(nt))
		}
	}
	return fmt.Sprintf("(<= (objtype (pobj %s)) 0)", p)
}

// typeFacts returns facts that hold of every value of Go type t denoted by term.
func (c *Ctx) typeFacts(term string, t types.Type, alloc string) string {
	switch u := t.Underlying().(type) {
	case *types.Basic:
		if lo, hi, ok := intRange(u); ok {
			return fmt.Sprintf("(and (<= %s %s) (<= %s %s))", bigLit(lo), term, term, bigLit(hi))
		}
		if u.Info()&types.IsString != 0 {
			return fmt.Sprintf("(<= (slen %s) 9223372036854775807)", term)
		}
		return "true"
	case *types.Pointer, *types.Map, *types.Chan:
		// map and channel values denote runtime objects that are never part of
		// (and never contain) a user-visible struct, array or variable
		kind := fmt.Sprintf("(and (not (ismapobj (pobj %s))) (not (islocalobj (pobj %s))))", term, term)
		if _, isPtr := u.(*types.Pointer); !isPtr {
			kind = fmt.Sprintf("(ismapobj (pobj %s))", term)
		}
		if pt, isPtr := u.(*types.Pointer); isPtr && c.tid != nil {
			// a *T that addresses a whole object addresses an object allocated as a T
			ot := fmt.Sprintf("(<= (objtype (pobj %s)) 0)", term)
			standalone := false
			if nt, ok := pt.Elem().(*types.Named); ok {
				if _, isStruct := nt.Underlying().(*types.Struct); isStruct {
					ot = fmt.Sprintf("(= (objtype (pobj %s)) %d)", term, c.tid(nt))
					standalone = c.standalone != nil && c.standalone(nt)
				}
			}
			if standalone {
				// values of this (unexported) type are never part of another object: a *T is a whole T
				kind = fmt.Sprintf("(and %s (= (ppath %s) here) %s)", kind, term, ot)
			} else {
				kind = fmt.Sprintf("(and %s (=> (= (ppath %s) here) %s))", kind, term, ot)
			}
		}
		if alloc == "" {
			return fmt.Sprintf("(or (= %s nil) %s)", term, kind)
		}
		return fmt.Sprintf("(or (= %s nil) (and (< (pobj %s) %s) %s))", term, term, alloc, kind)
	case *types.Slice:
		// a []T whose base is a whole object refers to an array allocated with element type T
		// (Go's type safety; unsafe conversions are outside the model): arrays of different element
		// types are different objects. Encoded as a negative objtype per element type.
		ot := "(<= (objtype (pobj (sbase " + term + "))) 0)"
		if c.tid != nil && !hasTypeParam(u.Elem()) && os.Getenv("BFVC_NO_TYPED_ARRAYS") == "" {
			ot = fmt.Sprintf("(= (objtype (pobj (sbase %s))) (- %d))", term, c.tid(types.NewSlice(u.Elem())))
		}
		f := fmt.Sprintf("(and (<= 0 (soff %s)) (<= 0 (slen_ %s)) (<= (slen_ %s) (scap %s)) (<= (scap %s) 9223372036854775807) (=> (= (sbase %s) nil) (= %s nilslice)) (or (= (sbase %s) nil) (and (not (ismapobj (pobj (sbase %s)))) (not (islocalobj (pobj (sbase %s)))) (=> (= (ppath (sbase %s)) here) %s)))", term, term, term, term, term, term, term, term, term, term, term, ot)
		if alloc != "" {
			f += fmt.Sprintf(" (or (= (sbase %s) nil) (< (pobj (sbase %s)) %s))", term, term, alloc)
		}
		return f + ")"
	case *types.Interface:
		return fmt.Sprintf("(=> (= (ityp %s) 0) (= %s niliface))", term, term)
	case *types.Struct:
		si := c.structInfoOf(t)
		var fs []string
		for i := 0; i < u.NumFields(); i++ {
			fs = append(fs, c.typeFacts("("+si.sels[i]+" "+term+")", u.Field(i).Type(), alloc))
		}
		return And(fs...)
	}
	return "true"
}

// standaloneType: values of the named struct type nt are only ever allocated as whole objects:
// nowhere in the packages that can mention it is it the type of a struct field, an array, slice,
// map or channel element (so a non-nil *nt always addresses a whole object allocated as an nt).
// Unexported types are checked in their own package, exported ones in all loaded bifrost packages.
func (e *Engine) standaloneType(nt *types.Named) bool {
	key := types.TypeString(nt, nil)
	if v, ok := e.standaloneMemo[key]; ok {
		return v
	}
	if e.standaloneMemo == nil {
		e.standaloneMemo = map[string]bool{}
	}
	e.standaloneMemo[key] = false // cycles: conservative
	if nt.Obj().Pkg() == nil || nt.TypeArgs() != nil || nt.Obj().Exported() {
		// exported types may be embedded by packages that are not loaded: not decided
		return false
	}
	if _, isStruct := nt.Underlying().(*types.Struct); !isStruct {
		return false
	}
	var containsByValue func(t types.Type, depth int) bool
	containsByValue = func(t types.Type, depth int) bool {
		if depth > 6 {
			return true
		}
		switch u := t.(type) {
		case *types.Named:
			if types.Identical(u, nt) {
				return true
			}
			return false // other named types are examined on their own
		case *types.Alias:
			return containsByValue(types.Unalias(u), depth+1)
		case *types.Struct:
			for i := 0; i < u.NumFields(); i++ {
				if containsByValue(u.Field(i).Type(), depth+1) {
					return true
				}
			}
		case *types.Array:
			return containsByValue(u.Elem(), depth+1)
		case *types.Slice:
			return containsByValue(u.Elem(), depth+1)
		case *types.Map:
			return containsByValue(u.Elem(), depth+1) || containsByValue(u.Key(), depth+1)
		case *types.Chan:
			return containsByValue(u.Elem(), depth+1)
		}
		return false
	}
	// aggregateHolds: t is an aggregate (not nt itself) that holds an nt by value
	aggregateHolds := func(t types.Type) bool {
		if n, ok := t.(*types.Named); ok {
			if types.Identical(n, nt) {
				return false
			}
			return containsByValue(n.Underlying(), 0)
		}
		return containsByValue(t, 0)
	}
	ok := true
	for _, p := range e.Prog.SSA.AllPackages() {
		if p.Pkg == nil {
			continue
		}
		if !nt.Obj().Exported() && p.Pkg != nt.Obj().Pkg() {
			continue
		}
		if nt.Obj().Exported() && !strings.HasPrefix(p.Pkg.Path(), "github.com/aperturerobotics/bifrost") {
			continue
		}
		sc := p.Pkg.Scope()
		for _, name := range sc.Names() {
			if tn, isTN := sc.Lookup(name).(*types.TypeName); isTN {
				if aggregateHolds(tn.Type()) {
					ok = false
				}
			}
		}
		for _, m := range p.Members {
			fn, isFn := m.(*ssa.Function)
			if !isFn {
				continue
			}
			var visit func(fn *ssa.Function)
			visit = func(fn *ssa.Function) {
				for _, b := range fn.Blocks {
					for _, in := range b.Instrs {
						switch x := in.(type) {
						case *ssa.Alloc:
							if aggregateHolds(x.Type().Underlying().(*types.Pointer).Elem()) {
								ok = false
							}
						case *ssa.MakeSlice, *ssa.MakeMap, *ssa.MakeChan:
							if aggregateHolds(x.(ssa.Value).Type()) {
								ok = false
							}
						}
					}
				}
				for _, an := range fn.AnonFuncs {
					visit(an)
				}
			}
			visit(fn)
		}
		// methods of the package's named types
		for _, name := range sc.Names() {
			if tn, isTN := sc.Lookup(name).(*types.TypeName); isTN {
				for _, recv := range []types.Type{tn.Type(), types.NewPointer(tn.Type())} {
					ms := e.Prog.SSA.MethodSets.MethodSet(recv)
					for i := 0; i < ms.Len(); i++ {
						if fn := e.Prog.SSA.MethodValue(ms.At(i)); fn != nil && fn.Pkg == p {
							for _, b := range fn.Blocks {
								for _, in := range b.Instrs {
									if a, isA := in.(*ssa.Alloc); isA && aggregateHolds(a.Type().Underlying().(*types.Pointer).Elem()) {
										ok = false
									}
									if ms2, isM := in.(*ssa.MakeSlice); isM && aggregateHolds(ms2.Type()) {
										ok = false
									}
								}
							}
						}
					}
				}
			}
		}
	}
	e.standaloneMemo[key] = ok
	return ok
}
