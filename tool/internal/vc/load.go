// Package vc is the verification-condition generator: it loads /repo's current
// working tree with go/packages, builds go/ssa, binds contracts, symbolically
// executes the SSA of the functions under contract and emits SMT-LIB obligations.
package vc

import (
	"fmt"
	"go/token"
	"go/types"
	"os"
	"sort"
	"strings"

	"golang.org/x/tools/go/packages"
	"golang.org/x/tools/go/ssa"
	"golang.org/x/tools/go/ssa/ssautil"
)

// Program is the loaded repository.
type Program struct {
	Repo  string
	Fset  *token.FileSet
	Pkgs  []*packages.Package
	SSA   *ssa.Program
	SPkgs []*ssa.Package
	// all functions by canonical name (see FuncName).
	Funcs map[string]*ssa.Function
	// AllPkgs is every package loaded (transitively) by path.
	AllPkgs map[string]*packages.Package
}

// GoEnv returns the environment used for go list (go1.26.8 toolchain, offline).
func GoEnv() []string {
	env := os.Environ()
	out := env[:0:0]
	for _, e := range env {
		if strings.HasPrefix(e, "PATH=") || strings.HasPrefix(e, "GOFLAGS=") || strings.HasPrefix(e, "GOPROXY=") ||
			strings.HasPrefix(e, "GOSUMDB=") || strings.HasPrefix(e, "GOTOOLCHAIN=") {
			continue
		}
		out = append(out, e)
	}
	out = append(out,
		"PATH=/opt/veriftools/go1.26.8/bin:"+os.Getenv("PATH"),
		"GOFLAGS=-mod=mod", "GOPROXY=off", "GOSUMDB=off", "GOTOOLCHAIN=local", "CGO_ENABLED=0")
	return out
}

// Load loads the given package patterns (relative to repo) with tag verif.
func Load(repo string, patterns []string) (*Program, error) {
	fset := token.NewFileSet()
	cfg := &packages.Config{
		Mode:       packages.LoadAllSyntax,
		Dir:        repo,
		Fset:       fset,
		Env:        GoEnv(),
		BuildFlags: []string{"-tags=verif"},
		Tests:      false,
	}
	pkgs, err := packages.Load(cfg, patterns...)
	if err != nil {
		return nil, err
	}
	var errs []string
	packages.Visit(pkgs, nil, func(p *packages.Package) {
		for _, e := range p.Errors {
			errs = append(errs, e.Error())
		}
	})
	if len(errs) > 0 {
		if len(errs) > 10 {
			errs = errs[:10]
		}
		return nil, fmt.Errorf("load errors (the tree does not type-check):\n%s", strings.Join(errs, "\n"))
	}
	prog, spkgs := ssautil.AllPackages(pkgs, ssa.GlobalDebug|ssa.InstantiateGenerics)
	prog.Build()
	p := &Program{Repo: repo, Fset: fset, Pkgs: pkgs, SSA: prog, SPkgs: spkgs, Funcs: map[string]*ssa.Function{}, AllPkgs: map[string]*packages.Package{}}
	packages.Visit(pkgs, nil, func(pp *packages.Package) { p.AllPkgs[pp.PkgPath] = pp })
	for fn := range ssautil.AllFunctions(prog) {
		if fn == nil {
			continue
		}
		p.Funcs[FuncName(fn)] = fn
	}
	return p, nil
}

// FuncName gives the canonical contract-level name of a function:
//
//	pkgname.Func, pkgname.(*T).M, pkgname.(T).M, and closures parent$k.
//
// The package part is the full import path.
func FuncName(fn *ssa.Function) string {
	if fn.Parent() != nil {
		return FuncName(fn.Parent()) + strings.TrimPrefix(fn.Name(), fn.Parent().Name())
	}
	if recv := fn.Signature.Recv(); recv != nil {
		t := recv.Type()
		ptr := ""
		if pt, ok := t.(*types.Pointer); ok {
			ptr = "*"
			t = pt.Elem()
		}
		if nt, ok := t.(*types.Named); ok {
			pk := ""
			if nt.Obj().Pkg() != nil {
				pk = nt.Obj().Pkg().Path()
			}
			name := nt.Obj().Name()
			if ptr != "" {
				return fmt.Sprintf("%s.(*%s).%s", pk, name, fn.Name())
			}
			return fmt.Sprintf("%s.(%s).%s", pk, name, fn.Name())
		}
		return fn.String()
	}
	if fn.Pkg != nil {
		return fn.Pkg.Pkg.Path() + "." + fn.Name()
	}
	if fn.Object() != nil && fn.Object().Pkg() != nil {
		return fn.Object().Pkg().Path() + "." + fn.Name()
	}
	return fn.String()
}

// FindFunc resolves a possibly abbreviated function name. The abbreviation may
// drop the module prefix "github.com/aperturerobotics/bifrost/".
func (p *Program) FindFunc(name string) *ssa.Function {
	if f, ok := p.Funcs[name]; ok {
		return f
	}
	const mod = "github.com/aperturerobotics/bifrost/"
	if f, ok := p.Funcs[mod+name]; ok {
		return f
	}
	return nil
}

// SortedFuncNames lists function names with a given prefix.
func (p *Program) SortedFuncNames(prefix string) []string {
	var out []string
	for n := range p.Funcs {
		if strings.Contains(n, prefix) {
			out = append(out, n)
		}
	}
	sort.Strings(out)
	return out
}
