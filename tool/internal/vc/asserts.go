package vc

import (
	"fmt"
	"sort"
	"strings"

	"golang.org/x/tools/go/ssa"
)

// callSiteAsserts discharges `assert at call <name>: e` clauses of the
// top-level contract at a call to a function whose name ends in <name>
// (for interface calls: "invoke.<Method>"). In e, arg0..argN denote the call's
// arguments (without the receiver, which is `recv`), and local variables of the
// caller that are defined at the call are visible by name.
func (f *Frame) callSiteAsserts(instr *ssa.Call, cc *ssa.CallCommon, calleeName string, args []string, reach string, st *State) {
	var in ssa.Instruction
	if instr != nil {
		in = instr
	}
	f.siteAsserts(in, cc, calleeName, args, reach, st)
}

// blockInLoop: b belongs to a loop of its function (its path condition then speaks about an
// arbitrary iteration, not about the whole execution).
func (f *Frame) blockInLoop(b *ssa.BasicBlock) bool {
	li := f.eng.loopsOf(b.Parent())
	for _, l := range li.ordered {
		if l.blocks[b] {
			return true
		}
	}
	return false
}

// calledCond is the meaning of called(X) at the current point: the execution came through a call
// of a function whose name ends in X (same matching as `assert at call X`). Defined for call
// sites outside loops only.
func (f *Frame) calledCond(want string) (string, error) {
	var rs []string
	for short, list := range f.top.callReach {
		if !(short == want || strings.HasSuffix(short, "/"+want) || strings.HasSuffix(short, "."+want)) {
			continue
		}
		for _, r := range list {
			if r == "inloop" {
				return "", fmt.Errorf("called(%s): a call site of %s is inside a loop", want, short)
			}
			rs = append(rs, r)
		}
	}
	if len(rs) == 0 {
		return "false", nil
	}
	sort.Strings(rs)
	if len(rs) == 1 {
		return rs[0], nil
	}
	return "(or " + strings.Join(rs, " ") + ")", nil
}

// goSiteAsserts: the same for a go statement (anchor `call go.<callee>`).
func (f *Frame) goSiteAsserts(instr *ssa.Go, cc *ssa.CallCommon, calleeName string, args []string, reach string, st *State) {
	f.siteAsserts(instr, cc, calleeName, args, reach, st)
}

func (f *Frame) siteAsserts(instr ssa.Instruction, cc *ssa.CallCommon, calleeName string, args []string, reach string, st *State) {
	top := f.top
	if top == nil || top.contract == nil {
		return
	}
	if f != top {
		// also inside closures of the function under contract that are executed inline
		// (critical-section callbacks): their call sites belong to the same source function
		isClosure := false
		for p := f.fn.Parent(); p != nil; p = p.Parent() {
			if p == top.fn {
				isClosure = true
			}
		}
		if !isClosure {
			return
		}
	}
	// called(X) in exit clauses: the path conditions of the call sites met so far, by callee name
	if top.callReach == nil {
		top.callReach = map[string][]string{}
	}
	{
		short := shortFuncName(calleeName)
		r := reach
		if instr != nil && instr.Block() != nil && f.blockInLoop(instr.Block()) {
			r = "inloop"
		}
		top.callReach[short] = append(top.callReach[short], r)
	}
	for _, a := range top.contract.Asserts {
		// "call? X": the same, but a function without any call of X satisfies the clause
		// vacuously (for clauses of the form "X is called only when ...")
		// "call! X": the same, and the function has to call X at all: a function without a call of X
		// fails the clause (for results that only X can produce)
		if !strings.HasPrefix(a.Anchor, "call ") && !strings.HasPrefix(a.Anchor, "call? ") && !strings.HasPrefix(a.Anchor, "call! ") {
			continue
		}
		want := strings.TrimSpace(strings.TrimPrefix(strings.TrimPrefix(strings.TrimPrefix(a.Anchor, "call? "), "call! "), "call "))
		short := shortFuncName(calleeName)
		if !(short == want || strings.HasSuffix(short, "/"+want) || strings.HasSuffix(short, "."+want) || strings.HasSuffix(short, want) && strings.HasPrefix(want, ".")) {
			continue
		}
		if top.callSnaps == nil {
			top.callSnaps = map[string]*State{}
		}
		_, seenSnap := top.callSnaps[want]
		if !seenSnap {
			top.callSnaps[want] = st.clone()
		}
		env := f.funcEnv(st, top.entry)
		var blk *ssa.BasicBlock
		if instr != nil {
			blk = instr.Block()
		}
		if blk != nil {
			f.bindLocals(env, blk, st)
			f.bindBlockLocalsUpTo(env, blk, instr, st)
		}
		sig := cc.Signature()
		off := 0
		if cc.IsInvoke() {
			env.vars["recv"] = sval{t: args[0], sort: "Iface", typ: cc.Value.Type()}
			off = 1
		} else if sig.Recv() != nil {
			env.vars["recv"] = env.sv(args[0], sig.Recv().Type())
			off = 1
		}
		for j := 0; j < sig.Params().Len() && j+off < len(args); j++ {
			env.vars[fmt.Sprintf("arg%d", j)] = env.sv(args[j+off], sig.Params().At(j).Type())
		}
		if !seenSnap {
			// atcall(anchor, e) may mention the arguments of that call
			if top.callArgs == nil {
				top.callArgs = map[string]map[string]sval{}
			}
			m := map[string]sval{}
			for k, v := range env.vars {
				if k == "recv" || strings.HasPrefix(k, "arg") {
					m[k] = v
				}
			}
			top.callArgs[want] = m
		}
		// outsideLoops: the call site is executed at most once per activation
		inLoop := false
		if blk != nil {
			for _, l := range f.loops.heads {
				if l.blocks[blk] {
					inLoop = true
				}
			}
		}
		if inLoop {
			env.vars["outsideLoops"] = sval{t: "false", sort: "Bool"}
		} else {
			env.vars["outsideLoops"] = sval{t: "true", sort: "Bool"}
		}
		g, err := env.evalGoal(a.E)
		if err != nil {
			f.bail("assert at %s %q: %v", a.Anchor, a.Text, err)
		}
		top.assertsHit[a.Anchor+"|"+a.Text] = true
		f.oblig("assert", cc.Pos(), fmt.Sprintf("at %s: %s", a.Anchor, a.Text), reach, g)
	}
}

// bindBlockLocalsUpTo binds variables referenced (DebugRef) in blk before instr.
func (f *Frame) bindBlockLocalsUpTo(env *SpecEnv, blk *ssa.BasicBlock, upto ssa.Instruction, st *State) {
	tmp := &ssa.BasicBlock{}
	_ = tmp
	var instrs []ssa.Instruction
	for _, in := range blk.Instrs {
		if in == upto {
			break
		}
		instrs = append(instrs, in)
	}
	f.bindDebugRefs(env, instrs, st)
}

// sendAsserts discharges `assert at send: e` clauses of the contract of the function being
// executed at a channel send (a send statement, or a send case of a select: the value is
// offered, whether or not the case is taken). In e, `sent` is the value, `sentch` the channel,
// and local variables defined at the send are visible by name.
func (f *Frame) sendAsserts(instr ssa.Instruction, ch, val ssa.Value, reach string, st *State) {
	top := f.top
	if top == nil || top.contract == nil || f != top {
		return
	}
	for _, a := range top.contract.Asserts {
		if a.Anchor != "send" {
			continue
		}
		env := f.funcEnv(st, top.entry)
		if blk := instr.Block(); blk != nil {
			f.bindLocals(env, blk, st)
			f.bindBlockLocalsUpTo(env, blk, instr, st)
		}
		env.vars["sent"] = env.sv(f.val(val), val.Type())
		env.vars["sentch"] = env.sv(f.val(ch), ch.Type())
		g, err := env.evalGoal(a.E)
		if err != nil {
			f.bail("assert at send %q: %v", a.Text, err)
		}
		top.assertsHit[a.Anchor+"|"+a.Text] = true
		f.oblig("assert", instr.Pos(), fmt.Sprintf("at send: %s", a.Text), reach, g)
	}
}

// countSend: with a declared `ghost heap chanSent ptr int`, the number of values this goroutine
// has sent on each channel: a send statement adds one; a select adds one to the channel of the
// send case that is taken (taken is the condition "this case was chosen").
func (f *Frame) countSend(ch ssa.Value, taken string, st *State) {
	if _, ok := ghostHeaps["chanSent"]; !ok {
		return
	}
	h := f.heap(st, "G_chanSent")
	nh := f.ctx.Fresh("chanSent", heapSort("G_chanSent"))
	c := f.val(ch)
	f.ctx.Fact(fmt.Sprintf("(= %s (ite %s (store %s %s (+ (select %s %s) 1)) %s))", nh, taken, h, c, h, c, h))
	st.heaps["G_chanSent"] = nh
}

// hasRequiredAnchor: the contract has a `call!` clause whose call site was not met.
func (f *Frame) hasRequiredAnchor() bool {
	if f.top == nil || f.top.contract == nil {
		return false
	}
	for _, a := range f.top.contract.Asserts {
		if strings.HasPrefix(a.Anchor, "call! ") && !f.top.assertsHit[a.Anchor+"|"+a.Text] {
			return true
		}
	}
	return false
}
