package vc

import (
	"fmt"
	"go/types"
	"regexp"

	"golang.org/x/tools/go/ssa"
)

// Init-only fields. An unexported field of a named struct type declared in the module is
// "init-only" when every store to it anywhere in its package (the only code that can name it)
// happens while the object is being constructed: the object is a local allocation (composite
// literal or new) that has not yet been passed, stored or returned, and the store is in the
// allocating basic block. Nothing else takes the field's address. Such a field never changes
// once the object is visible to other code, so its value in any later state equals its value on
// entry to the function under verification (for objects that existed then).
//
// Not seen by the scan (listed as an assumption): writes through unsafe or reflect.

type fieldKey struct {
	t   *types.Named
	idx int
}

func namedStructOf(t types.Type) *types.Named {
	if p, ok := t.Underlying().(*types.Pointer); ok {
		t = p.Elem()
	}
	nt, ok := t.(*types.Named)
	if !ok {
		return nil
	}
	if _, ok := nt.Underlying().(*types.Struct); !ok {
		return nil
	}
	return nt
}

// preEscape: alloc a is used, before instruction `upto` in a's block, only to address fields that
// are stored to or loaded from.
func preEscape(a *ssa.Alloc, upto ssa.Instruction) bool {
	if upto.Block() != a.Block() {
		return false
	}
	started := false
	for _, in := range a.Block().Instrs {
		if in == ssa.Instruction(a) {
			started = true
			continue
		}
		if !started {
			continue
		}
		if in == upto {
			return true
		}
		for _, op := range in.Operands(nil) {
			if *op != ssa.Value(a) {
				continue
			}
			fa, ok := in.(*ssa.FieldAddr)
			if !ok {
				if _, isDbg := in.(*ssa.DebugRef); isDbg {
					continue
				}
				return false
			}
			for _, r := range *fa.Referrers() {
				switch x := r.(type) {
				case *ssa.Store:
					if x.Addr != ssa.Value(fa) {
						return false
					}
				case *ssa.UnOp, *ssa.DebugRef:
				default:
					return false
				}
			}
		}
	}
	return false
}

// onlyLoaded: the address v (of a sub-field or element) is used only to read through it.
func onlyLoaded(v ssa.Value) bool {
	for _, r := range *v.Referrers() {
		switch u := r.(type) {
		case *ssa.UnOp, *ssa.DebugRef:
		case *ssa.FieldAddr:
			if !onlyLoaded(u) {
				return false
			}
		case *ssa.IndexAddr:
			if !onlyLoaded(u) {
				return false
			}
		default:
			return false
		}
	}
	return true
}

func (e *Engine) initOnlyField(nt *types.Named, idx int) bool {
	if nt == nil || nt.Obj().Pkg() == nil || nt.TypeArgs().Len() > 0 {
		return false
	}
	st, ok := nt.Underlying().(*types.Struct)
	if !ok || idx >= st.NumFields() || st.Field(idx).Exported() {
		return false
	}
	if e.mutableFields == nil {
		e.mutableFields = map[fieldKey]bool{}
		e.scannedPkgs = map[*types.Package]bool{}
	}
	pkg := nt.Obj().Pkg()
	if !e.scannedPkgs[pkg] {
		e.scannedPkgs[pkg] = true
		e.scanFieldStores(pkg)
	}
	return !e.mutableFields[fieldKey{nt, idx}]
}

func (e *Engine) scanFieldStores(pkg *types.Package) {
	markAll := func(nt *types.Named) {
		if st, ok := nt.Underlying().(*types.Struct); ok {
			for i := 0; i < st.NumFields(); i++ {
				e.mutableFields[fieldKey{nt, i}] = true
			}
		}
	}
	for _, fn := range e.Prog.Funcs {
		if fn.Blocks == nil {
			continue
		}
		top := fn
		for top.Parent() != nil {
			top = top.Parent()
		}
		var fpkg *types.Package
		if top.Pkg != nil {
			fpkg = top.Pkg.Pkg
		} else if top.Object() != nil {
			fpkg = top.Object().Pkg()
		}
		if fpkg != pkg {
			continue
		}
		for _, b := range fn.Blocks {
			for _, in := range b.Instrs {
				switch x := in.(type) {
				case *ssa.FieldAddr:
					nt := namedStructOf(x.X.Type())
					if nt == nil {
						continue
					}
					key := fieldKey{nt, x.Field}
					for _, r := range *x.Referrers() {
						switch u := r.(type) {
						case *ssa.UnOp, *ssa.DebugRef:
						case *ssa.Store:
							if u.Addr != ssa.Value(x) {
								e.mutableFields[key] = true // the field's address is stored somewhere
								continue
							}
							a, isAlloc := x.X.(*ssa.Alloc)
							if !isAlloc || !preEscape(a, u) {
								e.mutableFields[key] = true
								// a struct-typed field that is re-assigned: so are the fields inside it
								if fnt := namedStructOf(types.NewPointer(u.Val.Type())); fnt != nil {
									markAll(fnt)
								}
							}
						case *ssa.FieldAddr, *ssa.IndexAddr:
							// a sub-field or array element of a struct- or array-typed field: fine when
							// it is only read
							if !onlyLoaded(u.(ssa.Value)) {
								e.mutableFields[key] = true
							}
						default:
							// address passed on, ...
							e.mutableFields[key] = true
						}
					}
				case *ssa.Store:
					// whole-struct assignment *p = v
					if nt := namedStructOf(x.Addr.Type()); nt != nil {
						if _, isFA := x.Addr.(*ssa.FieldAddr); isFA {
							continue // handled above (a struct-typed field)
						}
						if a, ok := x.Addr.(*ssa.Alloc); ok && preEscape(a, x) {
							continue
						}
						markAll(nt)
					}
				case *ssa.Convert:
					// unsafe.Pointer(p)
					if b, ok := x.Type().Underlying().(*types.Basic); ok && b.Kind() == types.UnsafePointer {
						if nt := namedStructOf(x.X.Type()); nt != nil {
							markAll(nt)
						}
					}
				}
			}
		}
	}
}

// initOnlyFact: the value lv just loaded from field idx of the struct that p (of type *nt) points to
// is the field's one and only value: a function of the object (initv_T_f), whatever the state it is
// read in. Objects that this symbolic execution allocates itself (they may still be under
// construction when read) are left out.
func (f *Frame) initOnlyFact(st *State, p string, nt *types.Named, idx int, addr, lv string, ft types.Type) {
	if f.top == nil {
		return
	}
	if !f.eng.initOnlyField(nt, idx) {
		return
	}
	fn := fmt.Sprintf("initv_%d_%d", f.eng.typeID(nt), idx)
	f.ctx.DeclareOnce(fn, fmt.Sprintf("(declare-fun %s (Ptr) %s)", fn, f.ctx.sortOf(ft)))
	cond := fmt.Sprintf("(not (= %s nil))", p)
	for _, o := range f.top.ownObjs {
		cond += fmt.Sprintf(" (not (= (pobj %s) %s))", p, o)
	}
	f.ctx.Fact(fmt.Sprintf("(=> (and %s) (= %s (%s %s)))", cond, lv, fn, p))
	f.eng.note("init-only fields (unexported, stored only while their object is under construction) keep their value; writes through unsafe/reflect are not modelled")
}

// hasTypeParam reports whether t mentions a type parameter (no identity is assigned then).
func hasTypeParam(t types.Type) bool {
	switch u := t.(type) {
	case *types.TypeParam:
		return true
	case *types.Pointer:
		return hasTypeParam(u.Elem())
	case *types.Slice:
		return hasTypeParam(u.Elem())
	case *types.Array:
		return hasTypeParam(u.Elem())
	case *types.Map:
		return hasTypeParam(u.Key()) || hasTypeParam(u.Elem())
	case *types.Chan:
		return hasTypeParam(u.Elem())
	case *types.Named:
		for i := 0; i < u.TypeArgs().Len(); i++ {
			if hasTypeParam(u.TypeArgs().At(i)) {
				return true
			}
		}
	}
	return false
}

var aliasWord = regexp.MustCompile(`\b(byte|rune)\b`)
