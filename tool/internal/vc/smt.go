package vc

import (
	"bytes"
	"context"
	"fmt"
	"go/types"
	"os"
	"os/exec"
	"path/filepath"
	"strings"
	"sync"
	"time"
)

// Prelude is the fixed background theory (DESIGN §4). Everything in it is
// either a datatype/definition or one of the listed axioms about byte-string
// views; it is reported in every evidence file as trusted background theory.
const Prelude = `
(declare-datatypes ((Path 0)) (((here) (fld (fbase Path) (fidx Int)) (elem (ebase Path) (eidx Int)))))
(declare-datatypes ((Ptr 0)) (((nil) (ptr (pobj Int) (ppath Path)))))
(declare-sort Str 0)
(declare-fun slen (Str) Int)
(declare-fun sat (Str Int) Int)
(declare-datatypes ((Slice 0)) (((mkslice (sbase Ptr) (soff Int) (slen_ Int) (scap Int)))))
(declare-datatypes ((Iface 0)) (((mkiface (ityp Int) (ival Int)))))
(define-fun fldp ((p Ptr) (i Int)) Ptr (ptr (pobj p) (fld (ppath p) i)))
(define-fun elemp ((p Ptr) (i Int)) Ptr (ptr (pobj p) (elem (ppath p) i)))
(declare-fun selem (Slice Int) Ptr)
(assert (forall ((s Slice) (i Int)) (! (= (selem s i) (elemp (sbase s) (+ (soff s) i))) :pattern ((selem s i)))))
(define-fun nilslice () Slice (mkslice nil 0 0 0))
(define-fun inslice ((p Ptr) (s Slice)) Bool (and (not (= p nil)) (not (= (sbase s) nil)) (= (pobj p) (pobj (sbase s))) ((_ is elem) (ppath p)) (= (ebase (ppath p)) (ppath (sbase s))) (<= (soff s) (eidx (ppath p))) (< (eidx (ppath p)) (+ (soff s) (slen_ s)))))
(define-fun slicesdisjoint ((a Slice) (b Slice)) Bool (or (= (sbase a) nil) (= (sbase b) nil) (not (= (pobj (sbase a)) (pobj (sbase b)))) (and (= (ppath (sbase a)) (ppath (sbase b))) (or (<= (+ (soff a) (slen_ a)) (soff b)) (<= (+ (soff b) (slen_ b)) (soff a))))))
(define-fun subrange ((a Slice) (b Slice)) Bool (or (<= (slen_ a) 0) (and (not (= (sbase a) nil)) (= (sbase a) (sbase b)) (<= (soff b) (soff a)) (<= (+ (soff a) (slen_ a)) (+ (soff b) (slen_ b))))))
(define-fun niliface () Iface (mkiface 0 0))
(declare-fun str_empty () Str)
(assert (= (slen str_empty) 0))
(assert (forall ((s Str)) (! (>= (slen s) 0) :pattern ((slen s)))))
(assert (forall ((s Str)) (! (=> (= (slen s) 0) (= s str_empty)) :pattern ((slen s)))))
(declare-fun content ((Array Ptr Int) Slice) Str)
(assert (forall ((h (Array Ptr Int)) (s Slice)) (! (=> (>= (slen_ s) 0) (= (slen (content h s)) (slen_ s))) :pattern ((content h s)))))
(assert (forall ((h (Array Ptr Int)) (s Slice) (i Int)) (! (=> (and (<= 0 i) (< i (slen_ s))) (= (sat (content h s) i) (select h (selem s i)))) :pattern ((sat (content h s) i)))))
(declare-fun ssub (Str Int Int) Str)
(declare-fun subslice (Slice Int Int Int) Slice)
(assert (forall ((s Slice) (lo Int) (hi Int) (mx Int)) (! (= (subslice s lo hi mx) (mkslice (sbase s) (+ (soff s) lo) (- hi lo) (- mx lo))) :pattern ((subslice s lo hi mx)))))
(assert (forall ((h (Array Ptr Int)) (s Slice) (lo Int) (hi Int) (mx Int)) (! (=> (and (<= 0 lo) (<= lo hi) (<= hi (slen_ s))) (= (content h (subslice s lo hi mx)) (ssub (content h s) lo hi))) :pattern ((content h (subslice s lo hi mx))))))
(declare-fun scat (Str Str) Str)
(assert (forall ((a Str)) (! (= (scat str_empty a) a) :pattern ((scat str_empty a)))))
(assert (forall ((a Str)) (! (= (scat a str_empty) a) :pattern ((scat a str_empty)))))
(assert (forall ((a Str) (b Str) (l Int) (h Int)) (! (=> (and (<= 0 l) (<= l h) (<= h (slen a))) (= (ssub (scat a b) l h) (ssub a l h))) :pattern ((ssub (scat a b) l h)))))
(assert (forall ((a Str) (b Str) (l Int) (h Int)) (! (=> (and (<= (slen a) l) (<= l h) (<= h (+ (slen a) (slen b)))) (= (ssub (scat a b) l h) (ssub b (- l (slen a)) (- h (slen a))))) :pattern ((ssub (scat a b) l h)))))
(assert (forall ((a Str) (h Int)) (! (=> (= h (slen a)) (= (ssub a 0 h) a)) :pattern ((ssub a 0 h)))))
(assert (forall ((a Str) (b Str)) (! (= (slen (scat a b)) (+ (slen a) (slen b))) :pattern ((scat a b)))))
(assert (forall ((a Str) (b Str) (i Int)) (! (= (sat (scat a b) i) (ite (< i (slen a)) (sat a i) (sat b (- i (slen a))))) :pattern ((sat (scat a b) i)))))
(assert (forall ((a Str) (l Int) (h Int)) (! (=> (and (<= 0 l) (<= l h) (<= h (slen a))) (= (slen (ssub a l h)) (- h l))) :pattern ((ssub a l h)))))
(assert (forall ((a Str) (l Int) (h Int) (i Int)) (! (=> (and (<= 0 l) (<= l h) (<= h (slen a)) (<= 0 i) (< i (- h l))) (= (sat (ssub a l h) i) (sat a (+ l i)))) :pattern ((sat (ssub a l h) i)))))
(declare-fun box_Str (Str) Int)
(declare-fun unbox_Str (Int) Str)
(assert (forall ((x Str)) (! (= (unbox_Str (box_Str x)) x) :pattern ((box_Str x)))))
(declare-fun box_Ptr (Ptr) Int)
(declare-fun unbox_Ptr (Int) Ptr)
(assert (forall ((x Ptr)) (! (= (unbox_Ptr (box_Ptr x)) x) :pattern ((box_Ptr x)))))
(define-fun box_Int ((x Int)) Int x)
(define-fun unbox_Int ((x Int)) Int x)
(define-fun box_Bool ((x Bool)) Int (ite x 1 0))
(define-fun unbox_Bool ((x Int)) Bool (= x 1))
(declare-fun box_Slice (Slice) Int)
(declare-fun unbox_Slice (Int) Slice)
(assert (forall ((x Slice)) (! (= (unbox_Slice (box_Slice x)) x) :pattern ((box_Slice x)))))
(declare-fun box_Iface (Iface) Int)
(declare-fun unbox_Iface (Int) Iface)
(assert (forall ((x Iface)) (! (= (unbox_Iface (box_Iface x)) x) :pattern ((box_Iface x)))))
(declare-fun implements (Int Int) Bool)
(declare-fun ismapobj (Int) Bool)
(declare-fun islocalobj (Int) Bool)
(declare-fun objtype (Int) Int)
(declare-fun band (Int Int) Int)
(declare-fun bor (Int Int) Int)
(declare-fun bxor (Int Int) Int)
(assert (forall ((a Int) (b Int)) (! (=> (and (>= a 0) (>= b 0)) (and (>= (band a b) 0) (<= (band a b) a) (<= (band a b) b))) :pattern ((band a b)))))
(assert (forall ((a Int) (b Int)) (! (=> (and (>= a 0) (>= b 0)) (and (>= (bor a b) a) (>= (bor a b) b) (<= (bor a b) (+ a b)))) :pattern ((bor a b)))))
(assert (forall ((a Int) (b Int)) (! (=> (and (>= a 0) (>= b 0)) (and (>= (bxor a b) 0) (<= (bxor a b) (+ a b)))) :pattern ((bxor a b)))))
(assert (forall ((a Int) (b Int)) (! (=> (and (>= a 0) (>= b 0)) (= (= (bxor a b) 0) (= a b))) :pattern ((bxor a b)))))
(assert (forall ((a Int) (b Int)) (! (=> (and (>= a 0) (>= b 0)) (= (= (bor a b) 0) (and (= a 0) (= b 0)))) :pattern ((bor a b)))))
(assert (forall ((a Int) (b Int)) (! (=> (and (<= 0 a) (<= a 255) (<= 0 b) (<= b 255)) (and (<= (bor a b) 255) (<= (bxor a b) 255))) :pattern ((bor a b)) :pattern ((bxor a b)))))
(assert (forall ((a Int) (b Int)) (! (=> (or (= a (- 1)) (= b (- 1))) (= (bor a b) (- 1))) :pattern ((bor a b)))))
`

// Obligation is one proof goal.
type Obligation struct {
	Name    string // stable name (DESIGN §6.2)
	Kind    string
	Func    string
	Pos     string
	Clause  string // source text of the clause / expression
	Reach   string // SMT Bool: path condition under which the goal must hold
	Goal    string // SMT Bool
	NFacts  int    // number of facts of the Ctx visible to this obligation
	NDecls  int
	ctx     *Ctx
	Verdict string // unsat | sat | unknown | timeout | error
	Backend string
	Secs    float64
	Output  string
	Model   map[string]string
	// ModelTerms are terms whose values are requested from the solver when the
	// obligation is refuted (function parameters and the like).
	ModelTerms []string
	// ExpectFail marks a canary: the obligation must NOT be provable.
	ExpectFail bool
	File string
	Seq  int
	// Inputs: decoded counterexample inputs from the bounded search (model.go).
	Inputs    map[string]string
	ModelNote string
}

// Ctx accumulates declarations and facts for one top-level function.
type Ctx struct {
	Decls   []string
	Facts   []string
	Oblig   []*Obligation
	nfresh  int
	declSet map[string]bool
	// spec-level global declarations (spec funs, axioms) appended at creation.
	Assumed []string // notes about what was assumed (calls by contract, havocs)

	structs     map[string]*structInfo
	strLits     map[string]string
	strLitOrder []string
	nbase       int
	concrete    map[int]types.Type
	ifaces      map[int]*types.Interface
	sentinels   map[string]bool
	baseFrames  map[string]*lazyFrame
	baseAlloc   map[string]string // heap base -> allocation counter when it came into being
	structNames map[string]bool   // struct sorts declared in this context
	axiomsDone  map[string]bool
	// tid: identifier of a Go type (for objtype facts); nil outside function verification
	tid func(types.Type) int
	// standalone: the named struct type is only ever allocated as a whole object
	standalone func(*types.Named) bool
}

type lazyFrame struct {
	before  *State
	guard   string
	modObjs []string
}

func NewCtx() *Ctx { return &Ctx{declSet: map[string]bool{}} }

func (c *Ctx) Fresh(prefix, sort string) string {
	c.nfresh++
	n := fmt.Sprintf("%s@%d", sanitize(prefix), c.nfresh)
	c.ensureStructSorts(sort)
	c.Decls = append(c.Decls, fmt.Sprintf("(declare-fun %s () %s)", n, sort))
	return n
}

// Declare a named symbol once.
func (c *Ctx) DeclareOnce(name, decl string) {
	if c.declSet[name] {
		return
	}
	c.declSet[name] = true
	c.ensureStructSorts(decl)
	c.Decls = append(c.Decls, decl)
}

func (c *Ctx) Fact(f string) {
	if f == "true" {
		return
	}
	// Facts and decls are interleaved in emission order: a fact may only
	// mention symbols declared before it. We keep a single ordered list.
	c.Decls = append(c.Decls, "(assert "+f+")")
	c.Facts = append(c.Facts, f)
}

func (c *Ctx) AddOblig(o *Obligation) {
	o.NDecls = len(c.Decls)
	o.NFacts = len(c.Facts)
	o.ctx = c
	c.Oblig = append(c.Oblig, o)
}

func sanitize(s string) string {
	var b strings.Builder
	for _, r := range s {
		switch {
		case r >= 'a' && r <= 'z', r >= 'A' && r <= 'Z', r >= '0' && r <= '9', r == '_', r == '.':
			b.WriteRune(r)
		default:
			b.WriteByte('_')
		}
	}
	if b.Len() == 0 {
		return "v"
	}
	return b.String()
}

// SMT term helpers.
func And(xs ...string) string {
	var ys []string
	for _, x := range xs {
		if x == "true" || x == "" {
			continue
		}
		if x == "false" {
			return "false"
		}
		ys = append(ys, x)
	}
	switch len(ys) {
	case 0:
		return "true"
	case 1:
		return ys[0]
	}
	return "(and " + strings.Join(ys, " ") + ")"
}

func Or(xs ...string) string {
	var ys []string
	for _, x := range xs {
		if x == "false" || x == "" {
			continue
		}
		if x == "true" {
			return "true"
		}
		ys = append(ys, x)
	}
	switch len(ys) {
	case 0:
		return "false"
	case 1:
		return ys[0]
	}
	return "(or " + strings.Join(ys, " ") + ")"
}

func Not(x string) string {
	switch x {
	case "true":
		return "false"
	case "false":
		return "true"
	}
	if strings.HasPrefix(x, "(not ") && balancedInner(x[5:len(x)-1]) {
		return x[5 : len(x)-1]
	}
	return "(not " + x + ")"
}

func balancedInner(s string) bool {
	d := 0
	for i, r := range s {
		switch r {
		case '(':
			d++
		case ')':
			d--
			if d < 0 {
				return false
			}
			if d == 0 && i != len(s)-1 {
				return false
			}
		case ' ':
			if d == 0 {
				return false
			}
		}
	}
	return d == 0
}

func Implies(a, b string) string {
	if a == "true" {
		return b
	}
	if a == "false" || b == "true" {
		return "true"
	}
	return "(=> " + a + " " + b + ")"
}

func Eq(a, b string) string {
	if a == b {
		return "true"
	}
	return "(= " + a + " " + b + ")"
}

func Ite(c, a, b string) string {
	if c == "true" {
		return a
	}
	if c == "false" {
		return b
	}
	if a == b {
		return a
	}
	return "(ite " + c + " " + a + " " + b + ")"
}

func IntLit(v int64) string {
	if v < 0 {
		return fmt.Sprintf("(- %d)", -v)
	}
	return fmt.Sprintf("%d", v)
}

// Script renders the SMT-LIB text of an obligation.
func (o *Obligation) Script(withModel bool) string {
	var b bytes.Buffer
	b.WriteString("; obligation: " + strings.ReplaceAll(o.Name, "\n", " ") + "\n")
	if withModel {
		b.WriteString("(set-option :produce-models true)\n")
	}
	b.WriteString("(set-logic ALL)\n")
	b.WriteString(Prelude)
	for _, d := range o.ctx.Decls[:o.NDecls] {
		b.WriteString(d)
		b.WriteByte('\n')
	}
	b.WriteString("(assert " + o.Reach + ")\n")
	b.WriteString("(assert (not " + o.Goal + "))\n")
	b.WriteString("(check-sat)\n")
	if withModel && len(o.ModelTerms) > 0 {
		b.WriteString("(get-value (" + strings.Join(o.ModelTerms, " ") + "))\n")
	}
	return b.String()
}

// Solver portfolio.
type solverSpec struct {
	name string
	argv func(file string, timeoutS int) []string
}

var solvers = []solverSpec{
	{"z3-new", func(f string, t int) []string { return []string{"z3-new", fmt.Sprintf("-T:%d", t), f} }},
	{"z3", func(f string, t int) []string { return []string{"z3", fmt.Sprintf("-T:%d", t), f} }},
	{"cvc5", func(f string, t int) []string {
		return []string{"cvc5", "--incremental", fmt.Sprintf("--tlimit=%d", t*1000), f}
	}},
}

type solveResult struct {
	verdict string
	backend string
	out     string
	secs    float64
}

func runSolver(ctx context.Context, sp solverSpec, file string, timeoutS int) solveResult {
	t0 := time.Now()
	argv := sp.argv(file, timeoutS)
	cmd := exec.CommandContext(ctx, argv[0], argv[1:]...)
	var out bytes.Buffer
	cmd.Stdout = &out
	cmd.Stderr = &out
	_ = cmd.Run()
	s := out.String()
	first := strings.TrimSpace(strings.SplitN(s, "\n", 2)[0])
	v := "error"
	switch {
	case first == "unsat":
		v = "unsat"
	case first == "sat":
		v = "sat"
	case first == "unknown":
		v = "unknown"
	case strings.Contains(first, "timeout") || ctx.Err() != nil:
		v = "timeout"
	case strings.Contains(s, "interrupted by timeout") || strings.Contains(s, "cvc5 interrupted"):
		v = "timeout"
	}
	// a malformed script is a tool error, never a verdict (z3 4.8.12 prints an
	// error for get-value after unsat: only errors before the verdict count).
	if i := strings.Index(s, "(error"); i >= 0 && (v == "error" || i < strings.Index(s, first)) && !strings.Contains(s[i:], "model is not available") {
		v = "error"
	}
	return solveResult{v, sp.name, s, time.Since(t0).Seconds()}
}

// Discharge runs the portfolio on one obligation. quick: z3-new first, then
// the others in parallel if it did not decide.
func (o *Obligation) Discharge(dir string, timeoutS int, all bool) {
	base := sanitize(o.Name)
	if len(base) > 120 {
		base = base[:120]
	}
	// the sequence number keeps files of equally named obligations apart
	file := filepath.Join(dir, fmt.Sprintf("%04d_%s.smt2", o.Seq, base))
	o.File = file
	if err := os.WriteFile(file, []byte(o.Script(true)), 0o644); err != nil {
		o.Verdict = "error"
		o.Output = err.Error()
		return
	}
	t0 := time.Now()
	defer func() { o.Secs = time.Since(t0).Seconds() }()
	// stage 1: z3-new alone with a short budget.
	first := timeoutS
	if first > 4 && !all {
		first = 4
	}
	ctx := context.Background()
	if !all {
		r := runSolver(ctx, solvers[0], file, first)
		if r.verdict == "unsat" || r.verdict == "sat" || r.verdict == "error" {
			o.setResult(r)
			return
		}
		o.Output = r.out
	}
	// stage 2: race all.
	cctx, cancel := context.WithTimeout(ctx, time.Duration(timeoutS+2)*time.Second)
	defer cancel()
	ch := make(chan solveResult, len(solvers))
	var wg sync.WaitGroup
	for _, sp := range solvers {
		wg.Add(1)
		go func(sp solverSpec) {
			defer wg.Done()
			ch <- runSolver(cctx, sp, file, timeoutS)
		}(sp)
	}
	go func() { wg.Wait(); close(ch) }()
	var results []solveResult
	decided := false
	for r := range ch {
		results = append(results, r)
		if !decided && (r.verdict == "unsat" || r.verdict == "sat") {
			decided = true
			o.setResult(r)
			if !all {
				cancel()
			}
		}
	}
	if all {
		// cross-check: contradiction between solvers is a tool error.
		var sat, unsat bool
		for _, r := range results {
			if r.verdict == "sat" {
				sat = true
			}
			if r.verdict == "unsat" {
				unsat = true
			}
		}
		if sat && unsat {
			o.Verdict = "error"
			o.Output = "solver disagreement"
			return
		}
	}
	if !decided {
		v := "unknown"
		var outs []string
		for _, r := range results {
			if r.verdict == "timeout" {
				v = "timeout"
			}
			outs = append(outs, r.backend+": "+firstLines(r.out, 3))
		}
		o.Verdict = v
		o.Backend = "none"
		o.Output = strings.Join(outs, "\n")
	}
}

func (o *Obligation) setResult(r solveResult) {
	o.Verdict = r.verdict
	o.Backend = r.backend
	o.Output = r.out
	if r.verdict == "sat" {
		o.Model = parseModel(r.out)
	}
}

func firstLines(s string, n int) string {
	ls := strings.Split(s, "\n")
	if len(ls) > n {
		ls = ls[:n]
	}
	return strings.Join(ls, " | ")
}

func hashString(s string) uint32 {
	var h uint32 = 2166136261
	for i := 0; i < len(s); i++ {
		h ^= uint32(s[i])
		h *= 16777619
	}
	return h
}

// parseModel parses the (get-value ...) reply: ((term value) (term value) ...).
func parseModel(out string) map[string]string {
	i := strings.Index(out, "\n")
	if i < 0 {
		return nil
	}
	body := strings.TrimSpace(out[i+1:])
	sx, _ := parseSexp(body)
	m := map[string]string{}
	if sx == nil || sx.atom != "" {
		return m
	}
	for _, pair := range sx.list {
		if len(pair.list) == 2 {
			m[pair.list[0].String()] = pair.list[1].String()
		}
	}
	return m
}

type sexp struct {
	atom string
	list []*sexp
}

func (s *sexp) String() string {
	if s.list == nil && s.atom != "" {
		return s.atom
	}
	parts := make([]string, len(s.list))
	for i, x := range s.list {
		parts[i] = x.String()
	}
	return "(" + strings.Join(parts, " ") + ")"
}

func parseSexp(s string) (*sexp, string) {
	s = strings.TrimLeft(s, " \t\r\n")
	if s == "" {
		return nil, ""
	}
	if s[0] == '(' {
		s = s[1:]
		n := &sexp{list: []*sexp{}}
		for {
			s = strings.TrimLeft(s, " \t\r\n")
			if s == "" {
				return n, ""
			}
			if s[0] == ')' {
				return n, s[1:]
			}
			var c *sexp
			c, s = parseSexp(s)
			if c == nil {
				return n, s
			}
			n.list = append(n.list, c)
		}
	}
	if s[0] == '"' {
		j := 1
		for j < len(s) {
			if s[j] == '"' {
				if j+1 < len(s) && s[j+1] == '"' {
					j += 2
					continue
				}
				break
			}
			j++
		}
		if j >= len(s) {
			return &sexp{atom: s}, ""
		}
		return &sexp{atom: s[:j+1]}, s[j+1:]
	}
	if s[0] == '|' {
		j := strings.IndexByte(s[1:], '|')
		if j < 0 {
			return &sexp{atom: s}, ""
		}
		return &sexp{atom: s[:j+2]}, s[j+2:]
	}
	j := 0
	for j < len(s) && !strings.ContainsRune(" \t\r\n()", rune(s[j])) {
		j++
	}
	return &sexp{atom: s[:j]}, s[j:]
}
