package vc

import (
	"bytes"
	"context"
	"fmt"
	"go/types"
	"os"
	"sort"
	"strings"
)

// ModelVar is a named input whose value is read back from a counterexample.
type ModelVar struct {
	Name string // friendly name: "d.protocolID", "other.SolicitProtocolTransportID()", "encContext"
	Term string
	Sort string // Int | Bool | Str | Slice | Ptr | Iface
}

const modelStrBound = 8

// collectModelVars lists the inputs of the top-level function: parameters,
// one level of fields behind pointer-to-struct parameters (entry heap), and
// every pure interface getter applied to interface parameters.
func (f *Frame) collectModelVars() []ModelVar {
	var out []ModelVar
	ctx := f.ctx
	st := f.entry
	add := func(name, term string, t types.Type) {
		srt := ctx.sortOf(t)
		switch srt {
		case "Int", "Bool", "Str", "Slice", "Ptr", "Iface":
			if srt == "Slice" && !isByteSlice(t) {
				return
			}
			out = append(out, ModelVar{name, term, srt})
		}
	}
	for i, p := range f.fn.Params {
		term := f.params[i]
		add(p.Name(), term, p.Type())
		if stt, elem, ok := derefNamedStruct(p.Type()); ok {
			_ = elem
			for j := 0; j < stt.NumFields(); j++ {
				fl := stt.Field(j)
				switch fl.Type().Underlying().(type) {
				case *types.Struct, *types.Array:
					continue
				}
				h := f.heap(st, heapName(fl.Type()))
				add(p.Name()+"."+fl.Name(), fmt.Sprintf("(select %s (fldp %s %d))", h, term, j), fl.Type())
			}
		}
		if _, ok := p.Type().Underlying().(*types.Interface); ok {
			var names []string
			for n := range ctx.declSet {
				if strings.HasPrefix(n, "im_") {
					names = append(names, n)
				}
			}
			sort.Strings(names)
			for _, n := range names {
				// im_<Method>_<idx>_<argsorts>_<ressort>; only getters without arguments
				parts := strings.SplitN(strings.TrimPrefix(n, "im_"), "_", 3)
				if len(parts) < 3 {
					continue
				}
				rest := parts[2]
				if !strings.HasPrefix(rest, "_") { // has argument sorts
					continue
				}
				srt := strings.TrimPrefix(rest, "_")
				switch srt {
				case "Int", "Bool", "Str", "Slice", "Ptr":
					out = append(out, ModelVar{p.Name() + "." + parts[0] + "()", fmt.Sprintf("(%s %s)", n, term), srt})
				}
			}
		}
	}
	return out
}

// ModelScript renders the bounded counterexample search for a failed
// obligation: the same obligation with quantified background facts dropped
// (an under-constrained search) and byte strings bounded by modelStrBound.
// It only finds candidate inputs; it never decides an obligation.
func (o *Obligation) ModelScript(vars []ModelVar) string {
	var b bytes.Buffer
	b.WriteString("(set-option :produce-models true)\n(set-logic ALL)\n")
	keep := func(line string) bool { return !strings.Contains(line, "(forall ") && !strings.Contains(line, "(exists ") }
	for _, l := range strings.Split(Prelude, "\n") {
		if keep(l) {
			b.WriteString(l + "\n")
		}
	}
	for _, d := range o.ctx.Decls {
		for _, l := range strings.Split(d, "\n") {
			if keep(l) {
				b.WriteString(l + "\n")
			}
		}
	}
	h8 := ""
	for _, d := range o.ctx.Decls {
		if strings.HasPrefix(d, "(declare-fun H_uint8$0 ") {
			h8 = "H_uint8$0"
		}
	}
	var strs []string
	var terms []string
	for _, v := range vars {
		switch v.Sort {
		case "Str":
			b.WriteString(fmt.Sprintf("(assert (and (<= 0 (slen %s)) (<= (slen %s) %d)))\n", v.Term, v.Term, modelStrBound))
			strs = append(strs, v.Term)
			terms = append(terms, "(slen "+v.Term+")")
			for i := 0; i < modelStrBound; i++ {
				b.WriteString(fmt.Sprintf("(assert (and (<= 0 (sat %s %d)) (<= (sat %s %d) 255)))\n", v.Term, i, v.Term, i))
				terms = append(terms, fmt.Sprintf("(sat %s %d)", v.Term, i))
			}
		case "Slice":
			b.WriteString(fmt.Sprintf("(assert (and (<= 0 (slen_ %s)) (<= (slen_ %s) %d)))\n", v.Term, v.Term, modelStrBound))
			terms = append(terms, "(slen_ "+v.Term+")", "(= (sbase "+v.Term+") nil)")
			if h8 != "" {
				c := fmt.Sprintf("(content %s %s)", h8, v.Term)
				strs = append(strs, c)
				b.WriteString(fmt.Sprintf("(assert (= (slen %s) (slen_ %s)))\n", c, v.Term))
				for i := 0; i < modelStrBound; i++ {
					b.WriteString(fmt.Sprintf("(assert (= (sat %s %d) (select %s (selem %s %d))))\n", c, i, h8, v.Term, i))
					b.WriteString(fmt.Sprintf("(assert (and (<= 0 (sat %s %d)) (<= (sat %s %d) 255)))\n", c, i, c, i))
					terms = append(terms, fmt.Sprintf("(select %s (selem %s %d))", h8, v.Term, i))
				}
			}
		case "Ptr":
			terms = append(terms, "(= "+v.Term+" nil)")
		case "Iface":
			terms = append(terms, "(ityp "+v.Term+")")
		default:
			terms = append(terms, v.Term)
		}
	}
	// bounded extensionality between the byte strings of interest
	for i := 0; i < len(strs); i++ {
		for j := i + 1; j < len(strs); j++ {
			var eqs []string
			eqs = append(eqs, fmt.Sprintf("(= (slen %s) (slen %s))", strs[i], strs[j]))
			for k := 0; k < modelStrBound; k++ {
				eqs = append(eqs, fmt.Sprintf("(or (>= %d (slen %s)) (= (sat %s %d) (sat %s %d)))", k, strs[i], strs[i], k, strs[j], k))
			}
			b.WriteString(fmt.Sprintf("(assert (= (= %s %s) %s))\n", strs[i], strs[j], And(eqs...)))
		}
	}
	b.WriteString("(assert " + o.Reach + ")\n(assert (not " + o.Goal + "))\n(check-sat)\n")
	if len(terms) > 0 {
		b.WriteString("(get-value (" + strings.Join(terms, " ") + "))\n")
	}
	return b.String()
}

// FindModel runs the bounded counterexample search; on success o.Inputs holds
// decoded input values by friendly name.
func (o *Obligation) FindModel(dir string, vars []ModelVar) {
	if len(vars) == 0 {
		return
	}
	file := o.File
	if file == "" {
		return
	}
	file = strings.TrimSuffix(file, ".smt2") + ".model.smt2"
	if err := os.WriteFile(file, []byte(o.ModelScript(vars)), 0o644); err != nil {
		return
	}
	for _, sp := range solvers[:2] {
		r := runSolver(context.Background(), sp, file, 10)
		if r.verdict != "sat" {
			o.ModelNote = "bounded search (" + sp.name + "): " + r.verdict
			continue
		}
		m := parseModel(r.out)
		in := map[string]string{}
		for _, v := range vars {
			switch v.Sort {
			case "Str":
				n := atoiModel(m["(slen "+v.Term+")"])
				if n < 0 || n > modelStrBound {
					n = 0
				}
				bs := make([]byte, n)
				for i := range bs {
					bs[i] = byte(atoiModel(m[fmt.Sprintf("(sat %s %d)", v.Term, i)]))
				}
				in[v.Name] = string(bs)
			case "Slice":
				n := atoiModel(m["(slen_ "+v.Term+")"])
				if n < 0 || n > modelStrBound {
					n = 0
				}
				bs := make([]byte, n)
				for i := range bs {
					for k, val := range m {
						if strings.HasPrefix(k, "(select H_uint8$0 (selem "+v.Term+" ") && strings.HasSuffix(k, fmt.Sprintf(" %d))", i)) {
							bs[i] = byte(atoiModel(val))
						}
					}
				}
				in[v.Name] = string(bs)
				in[v.Name+".isnil"] = m["(= (sbase "+v.Term+") nil)"]
			case "Ptr":
				in[v.Name+".isnil"] = m["(= "+v.Term+" nil)"]
			case "Iface":
				in[v.Name+".dyntype"] = m["(ityp "+v.Term+")"]
			default:
				in[v.Name] = m[v.Term]
			}
		}
		o.Inputs = in
		o.ModelNote = "bounded search (" + sp.name + "): sat; byte strings bounded by " + fmt.Sprint(modelStrBound)
		return
	}
}
