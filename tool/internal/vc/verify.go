package vc

import (
	"fmt"
	"go/ast"
	"go/token"
	"go/types"
	"os"
	"strings"

	"golang.org/x/tools/go/ssa"
)

type tokenPos = token.Pos

// FuncResult is the outcome of generating VCs for one function.
type FuncResult struct {
	Name     string
	Ctx      *Ctx
	Bailed   string
	Contract *FuncContract
	Used     map[string]bool // repo contracts applied at call sites
	Loops    int
	Framed   bool
	// ModelVars: inputs read back from counterexamples.
	ModelVars []ModelVar
}

// VerifyFunc generates all obligations for fn against its contract (may be nil:
// safety sweep only).
func (e *Engine) VerifyFunc(fn *ssa.Function, fc *FuncContract) (res *FuncResult) {
	ctx := NewCtx()
	ctx.tid = e.typeID
	ctx.standalone = e.standaloneType
	res = &FuncResult{Name: FuncName(fn), Ctx: ctx, Contract: fc, Used: map[string]bool{}}
	f := &Frame{eng: e, ctx: ctx, fn: fn, vals: map[ssa.Value]string{}, tuples: map[ssa.Value][]string{},
		reach: map[*ssa.BasicBlock]string{}, endSt: map[*ssa.BasicBlock]*State{}, contract: fc,
		ordinals: map[string]int{}, closures: map[string]*closureVal{}, usedContracts: res.Used, assertsHit: map[string]bool{}, bridged: map[string]bool{}, csCount: map[string]int{}, noopFuncs: map[string]bool{}}
	f.top = f
	defer func() {
		if r := recover(); r != nil {
			if b, ok := r.(bailout); ok {
				res.Bailed = b.msg
				return
			}
			panic(r)
		}
	}()
	if fn.Blocks == nil {
		f.bail("no body")
	}
	st := &State{heaps: map[string]string{}, base: "0"}
	st.alloc = ctx.Fresh("alloc0", "Int")
	ctx.Fact(fmt.Sprintf("(>= %s 1)", st.alloc))
	f.alloc0 = st.alloc
	if ctx.baseAlloc == nil {
		ctx.baseAlloc = map[string]string{}
	}
	ctx.baseAlloc["0"] = st.alloc
	st.heaps[sinceUnlockKey] = st.alloc
	var args []string
	for i, p := range fn.Params {
		a := ctx.Fresh("p_"+p.Name(), ctx.sortOf(p.Type()))
		ctx.Fact(ctx.typeFacts(a, p.Type(), st.alloc))
		args = append(args, a)
		f.params = append(f.params, a)
		if _, isIface := p.Type().Underlying().(*types.Interface); isIface && !(i == 0 && fn.Signature.Recv() != nil) && (fc == nil || !fc.Nilable[p.Name()]) {
			if p.Type().String() != "error" {
				ctx.Fact(fmt.Sprintf("(not (= (ityp %s) 0))", a))
				e.note("interface-typed parameters (other than error) are assumed non-nil unless the contract says nilable <name>")
			}
		}
		if i == 0 && fn.Signature.Recv() != nil {
			if _, isPtr := p.Type().Underlying().(*types.Pointer); isPtr && (fc == nil || !fc.NilableRecv) {
				ctx.Fact(Not(Eq(a, "nil")))
				e.note("pointer receivers are assumed non-nil unless the contract says nilable-receiver")
			}
		}
	}
	var bindings []string
	for _, fv := range fn.FreeVars {
		a := ctx.Fresh("fv_"+fv.Name(), ctx.sortOf(fv.Type()))
		ctx.Fact(ctx.typeFacts(a, fv.Type(), st.alloc))
		// free variables are addresses of captured cells: non-nil
		if pt, isPtr := fv.Type().Underlying().(*types.Pointer); isPtr {
			ctx.Fact(Not(Eq(a, "nil")))
			// each is a whole variable of the enclosing function, allocated with its own type,
			// and different captured variables are different objects
			if fn.Parent() != nil {
				ctx.Fact(fmt.Sprintf("(and (= (ppath %s) here) %s)", a, e.objTypeFact(a, pt.Elem())))
				for j, b := range bindings {
					if _, ok := fn.FreeVars[j].Type().Underlying().(*types.Pointer); ok {
						ctx.Fact(fmt.Sprintf("(not (= (pobj %s) (pobj %s)))", a, b))
					}
				}
			}
		}
		bindings = append(bindings, a)
	}
	for i, p := range fn.Params {
		f.vals[p] = args[i]
	}
	for i, fv := range fn.FreeVars {
		f.vals[fv] = bindings[i]
	}
	if p := fn.Parent(); p != nil {
		// a captured variable that the enclosing function assigns exactly once (and that no
		// closure assigns) keeps its value across every havoc in the closure too
		for _, b := range p.Blocks {
			for _, in := range b.Instrs {
				mc, ok := in.(*ssa.MakeClosure)
				if !ok || mc.Fn != fn {
					continue
				}
				for i, bv := range mc.Bindings {
					if a, ok := bv.(*ssa.Alloc); ok && i < len(bindings) && assignedOnceCell(a) {
						f.immCells = append(f.immCells, immCell{bindings[i], a.Type().Underlying().(*types.Pointer).Elem()})
					}
				}
			}
		}
	}
	f.entry = st.clone()
	res.Framed = fc != nil && !fc.NoFrame
	f.framed = res.Framed
	if fc != nil {
		env := f.funcEnv(st, st)
		for _, r := range fc.Requires {
			g, err := env.evalBool(r.E)
			if err != nil {
				f.bail("requires %q: %v", r.Text, err)
			}
			ctx.Fact(g)
		}
		for _, m := range fc.Modifies {
			v, err := env.eval(m.E)
			if err != nil {
				f.bail("modifies %q: %v", m.Text, err)
			}
			switch v.sort {
			case "Ptr":
				f.modObjs = append(f.modObjs, "(pobj "+v.t+")")
			case "Slice":
				f.modObjs = append(f.modObjs, "slice:"+v.t)
			default:
				f.bail("modifies %q: not a pointer or slice", m.Text)
			}
		}
	}
	// vacuity canary: the entry assumptions must be satisfiable.
	ctx.AddOblig(&Obligation{Name: shortFuncName(res.Name) + "#canary[entry]", Kind: "canary", Func: res.Name, Reach: "true", Goal: "false", ExpectFail: true, Clause: "requires and background theory are satisfiable"})
	f.run("true", st, args, bindings)
	res.Loops = len(f.loops.heads)
	// postconditions
	exitAsserted := map[string]bool{}
	var retReach []string
	for i, r := range f.rets {
		retReach = append(retReach, r.reach)
		if fc == nil {
			continue
		}
		env := f.funcEnv(r.st, f.entry)
		env.bindResults(fn.Signature, r.vals)
		env.reach = r.reach
		// exit lemmas: `assert at exit: e` may mention locals; each is proved at
		// every return and then available to the clauses that follow it.
		for _, a := range fc.Asserts {
			if a.Anchor != "exit" {
				continue
			}
			lenv := f.funcEnv(r.st, f.entry)
			f.bindLocals(lenv, r.instr.Block(), r.st)
			f.bindBlockLocals(lenv, r.instr.Block(), r.st)
			for k, v := range env.vars {
				if strings.HasPrefix(k, "ret") {
					lenv.vars[k] = v
				}
			}
			// a named result means the value returned, also where a local of the same name
			// (err := ...) shadows it at the return statement
			for ri := 0; ri < fn.Signature.Results().Len(); ri++ {
				if rn := fn.Signature.Results().At(ri).Name(); rn != "" && rn != "_" {
					if v, ok := env.vars[rn]; ok {
						lenv.vars[rn] = v
					}
				}
			}
			g, err := lenv.evalGoal(a.E)
			if err != nil {
				if strings.Contains(err.Error(), "unknown identifier") {
					// a local that is not defined on this return path (early exit):
					// the lemma cannot be stated here; it must be stated on some return.
					continue
				}
				if strings.Contains(err.Error(), "atcall: no call site") && f.hasRequiredAnchor() {
					// it speaks about a required call (`call!`) that is gone: that clause fails
					// in its own right (reported below); this one cannot be stated
					exitAsserted[a.Text] = true
					continue
				}
				f.bail("assert at exit %q: %v", a.Text, err)
			}
			exitAsserted[a.Text] = true
			name := fmt.Sprintf("%s#assert[exit: %s]#ret%d", shortFuncName(res.Name), normText(a.Text), i+1)
			ctx.AddOblig(&Obligation{Name: name, Kind: "assert", Func: res.Name, Pos: f.posString(r.instr.Pos()), Clause: a.Text, Reach: r.reach, Goal: g, ModelTerms: f.params})
			plain, err := lenv.evalBool(a.E)
			if err != nil {
				f.bail("assert at exit %q: %v", a.Text, err)
			}
			ctx.Fact(Implies(r.reach, plain))
		}
		for _, en := range fc.Ensures {
			g, err := env.evalGoal(en.E)
			if err != nil {
				f.bail("ensures %q: %v", en.Text, err)
			}
			name := fmt.Sprintf("%s#post[%s]#ret%d", shortFuncName(res.Name), normText(en.Text), i+1)
			o := &Obligation{Name: name, Kind: "post", Func: res.Name, Pos: f.posString(r.instr.Pos()), Clause: en.Text, Reach: r.reach, Goal: g, ModelTerms: f.params}
			ctx.AddOblig(o)
		}
		for _, fr := range fc.Fresh {
			v, err := env.eval(fr.E)
			if err != nil {
				f.bail("fresh %q: %v", fr.Text, err)
			}
			var g string
			switch v.sort {
			case "Ptr":
				g = fmt.Sprintf("(or (= %s nil) (>= (pobj %s) %s))", v.t, v.t, f.alloc0)
			case "Slice":
				g = fmt.Sprintf("(or (= (sbase %s) nil) (>= (pobj (sbase %s)) %s))", v.t, v.t, f.alloc0)
			default:
				f.bail("fresh %q: not a pointer or slice", fr.Text)
			}
			name := fmt.Sprintf("%s#fresh[%s]#ret%d", shortFuncName(res.Name), normText(fr.Text), i+1)
			ctx.AddOblig(&Obligation{Name: name, Kind: "fresh", Func: res.Name, Pos: f.posString(r.instr.Pos()), Clause: fr.Text, Reach: r.reach, Goal: g, ModelTerms: f.params})
		}
	}
	if fc != nil {
		for _, cs := range fc.CS {
			if !f.csHit[cs.Text] {
				f.bail("bind-error: cs %s ensures %q: no critical section of %s that it applies to was executed", cs.Mutex, cs.Text, fn.Name())
			}
		}
		for _, a := range fc.Asserts {
			if a.Anchor == "send" && !f.assertsHit[a.Anchor+"|"+a.Text] {
				f.bail("bind-error: assert at send %q: %s sends on no channel", a.Text, fn.Name())
			}
			if strings.HasPrefix(a.Anchor, "call! ") && !f.assertsHit[a.Anchor+"|"+a.Text] {
				// a required call that the function no longer makes: the clause fails
				name := fmt.Sprintf("%s#anchor[%s: %s]", shortFuncName(res.Name), a.Anchor, normText(a.Text))
				ctx.AddOblig(&Obligation{Name: name, Kind: "anchor", Func: res.Name, Pos: f.posString(fn.Pos()), Clause: "the function calls " + strings.TrimPrefix(a.Anchor, "call! ") + " (" + a.Text + ")", Reach: "true", Goal: "false", ModelTerms: f.params})
			}
			if strings.HasPrefix(a.Anchor, "call ") && !f.assertsHit[a.Anchor+"|"+a.Text] {
				f.bail("bind-error: assert at %s %q: no such call site in %s", a.Anchor, a.Text, fn.Name())
			}
			if a.Anchor == "exit" && !exitAsserted[a.Text] && len(f.rets) > 0 {
				f.bail("assert at exit %q cannot be evaluated on any return path (unknown identifier)", a.Text)
			}
		}
	}
	res.ModelVars = f.collectModelVars()
	if len(f.rets) > 0 {
		ctx.AddOblig(&Obligation{Name: shortFuncName(res.Name) + "#canary[exit]", Kind: "canary", Func: res.Name, Reach: Or(retReach...), Goal: "false", ExpectFail: true, Clause: "some return is reachable"})
	}
	// covers: antecedents of implications must be reachable on some return
	if fc != nil {
		seenCover := map[string]bool{}
		for _, en := range fc.Ensures {
			b, ok := en.E.(*EBin)
			if !ok || b.Op != "==>" {
				continue
			}
			if seenCover[b.L.exprString()] {
				continue
			}
			seenCover[b.L.exprString()] = true
			var alts []string
			for _, r := range f.rets {
				env := f.funcEnv(r.st, f.entry)
				env.bindResults(fn.Signature, r.vals)
				a, err := env.evalBool(b.L)
				if err != nil {
					f.bail("ensures %q: %v", en.Text, err)
				}
				alts = append(alts, And(r.reach, a))
			}
			ctx.AddOblig(&Obligation{Name: fmt.Sprintf("%s#cover[%s]", shortFuncName(res.Name), normText(b.L.exprString())), Kind: "cover", Func: res.Name, Reach: Or(alts...), Goal: "false", ExpectFail: true, Clause: "antecedent reachable: " + b.L.exprString()})
		}
	}
	return res
}

// storeFrame emits the frame obligation for a direct write to object obj.
func (f *Frame) storeFrame(pos token.Pos, what string, obj string, reach string) {
	top := f.top
	if !top.framed {
		return
	}
	f.storeFrameAt(pos, what, obj, "", "", reach)
}

// storeFrameAt: a write to object obj — at address addr, or to all elements of
// slice region — must hit an object that is fresh since function entry, an
// object listed in the modifies clause, or lie inside a slice listed there.
func (f *Frame) storeFrameAt(pos token.Pos, what string, obj, addr, region string, reach string) {
	top := f.top
	if !top.framed {
		return
	}
	goal := []string{fmt.Sprintf("(>= %s %s)", obj, top.alloc0)}
	for _, m := range top.modObjs {
		if strings.HasPrefix(m, "slice:") {
			switch {
			case addr != "":
				goal = append(goal, fmt.Sprintf("(inslice %s %s)", addr, m[6:]))
			case region != "":
				goal = append(goal, fmt.Sprintf("(subrange %s %s)", region, m[6:]))
			}
			continue
		}
		goal = append(goal, Eq(obj, m))
	}
	f.oblig("frame", pos, what, reach, Or(goal...))
}

// ---- source text ----

func (e *Engine) exprTextAt(pos token.Pos) string {
	if !pos.IsValid() {
		return ""
	}
	p := e.Prog.Fset.Position(pos)
	file := e.fileFor(p.Filename)
	if file == nil {
		return ""
	}
	// innermost expression or statement whose own Pos() (operator position for
	// go/ssa) matches: find smallest node containing pos.
	var best ast.Node
	ast.Inspect(file, func(n ast.Node) bool {
		if n == nil {
			return false
		}
		if n.Pos() <= pos && pos < n.End() {
			switch n.(type) {
			case ast.Expr:
				best = n
			}
			return true
		}
		return false
	})
	if best == nil {
		return ""
	}
	// climb: go/ssa positions are often the position of '[' or '(' or the
	// operator; choose the smallest enclosing index/slice/call/binary/star/selector expression.
	var cand ast.Node
	ast.Inspect(file, func(n ast.Node) bool {
		if n == nil {
			return false
		}
		if !(n.Pos() <= pos && pos < n.End()) {
			return false
		}
		switch x := n.(type) {
		case *ast.IndexExpr:
			if x.Lbrack == pos {
				cand = n
			}
		case *ast.SliceExpr:
			if x.Lbrack == pos {
				cand = n
			}
		case *ast.CallExpr:
			if x.Lparen == pos {
				cand = n
			}
		case *ast.BinaryExpr:
			if x.OpPos == pos {
				cand = n
			}
		case *ast.StarExpr:
			if x.Star == pos {
				cand = n
			}
		case *ast.SelectorExpr:
			if x.Sel.Pos() == pos {
				cand = n
			}
		case *ast.TypeAssertExpr:
			if x.Lparen == pos {
				cand = n
			}
		case *ast.UnaryExpr:
			if x.OpPos == pos {
				cand = n
			}
		}
		return true
	})
	if cand != nil {
		best = cand
	}
	src := e.srcBytes(p.Filename)
	if src == nil {
		return ""
	}
	s, t := e.Prog.Fset.Position(best.Pos()).Offset, e.Prog.Fset.Position(best.End()).Offset
	if s < 0 || t > len(src) || s >= t {
		return ""
	}
	return strings.Join(strings.Fields(string(src[s:t])), " ")
}

func (e *Engine) fileFor(filename string) *ast.File {
	for _, p := range e.Prog.AllPkgs {
		for i, f := range p.CompiledGoFiles {
			if f == filename && i < len(p.Syntax) {
				return p.Syntax[i]
			}
		}
	}
	return nil
}

func (e *Engine) srcBytes(filename string) []byte {
	if b, ok := e.srcCache[filename]; ok {
		return b
	}
	b, err := os.ReadFile(filename)
	if err != nil {
		b = nil
	}
	e.srcCache[filename] = b
	return b
}

// ---- loop environments ----

// loopEnv: names visible in a loop invariant: parameters, phis of the head (by
// variable name), and the latest dominating definition of other locals.
func (f *Frame) loopEnv(l *loop, st *State) *SpecEnv {
	env := f.funcEnv(st, f.entry)
	f.bindLocals(env, l.head, st)
	env.rangeSeen = f.loopRangeSeen(l)
	return env
}

func (f *Frame) bindLocals(env *SpecEnv, at *ssa.BasicBlock, st *State) {
	// latest dominating DebugRef per variable name
	for _, b := range f.loops.rpo {
		if !(b.Dominates(at)) || b == at {
			continue
		}
		for _, in := range b.Instrs {
			if phi, isPhi := in.(*ssa.Phi); isPhi {
				// a variable re-assigned on some branch: the merged value is its value from here on
				if phi.Comment != "" && phi.Comment != "rangeindex" && phi.Comment != "rangeint.iter" {
					if t, ok := f.tryVal(phi); ok {
						env.vars[phi.Comment] = env.sv(t, phi.Type())
					}
				}
				continue
			}
			d, ok := in.(*ssa.DebugRef)
			if !ok {
				continue
			}
			id, ok := d.Expr.(*ast.Ident)
			if !ok {
				continue
			}
			if _, isVar := d.Object().(*types.Var); !isVar {
				continue
			}
			t, ok := f.tryVal(d.X)
			if !ok {
				continue
			}
			if d.IsAddr {
				et := d.X.Type().Underlying().(*types.Pointer).Elem()
				env.vars[id.Name] = env.sv(f.load(st, t, et), et)
			} else {
				env.vars[id.Name] = env.sv(t, d.X.Type())
			}
		}
	}
	for _, in := range at.Instrs {
		phi, ok := in.(*ssa.Phi)
		if !ok {
			break
		}
		if phi.Comment != "" {
			if t, ok := f.vals[phi]; ok {
				env.vars[phi.Comment] = env.sv(t, phi.Type())
				if phi.Comment == "rangeint.iter" {
					// `for i := range n`: the hidden counter (the index about to be processed)
					env.vars["rangeiter"] = env.sv(t, phi.Type())
				}
			}
		}
	}
}

// bindBlockLocals: variables referenced (DebugRef) inside block at itself.
func (f *Frame) bindBlockLocals(env *SpecEnv, at *ssa.BasicBlock, st *State) {
	f.bindDebugRefs(env, at.Instrs, st)
}

func (f *Frame) bindDebugRefs(env *SpecEnv, instrs []ssa.Instruction, st *State) {
	for _, in := range instrs {
		d, ok := in.(*ssa.DebugRef)
		if !ok {
			continue
		}
		id, ok := d.Expr.(*ast.Ident)
		if !ok {
			continue
		}
		if _, isVar := d.Object().(*types.Var); !isVar {
			continue
		}
		t, ok := f.tryVal(d.X)
		if !ok {
			continue
		}
		if d.IsAddr {
			et := d.X.Type().Underlying().(*types.Pointer).Elem()
			env.vars[id.Name] = env.sv(f.load(st, t, et), et)
		} else {
			env.vars[id.Name] = env.sv(t, d.X.Type())
		}
	}
}

func (f *Frame) tryVal(v ssa.Value) (t string, ok bool) {
	defer func() {
		if r := recover(); r != nil {
			if _, isB := r.(bailout); isB {
				ok = false
				return
			}
			panic(r)
		}
	}()
	if tt, has := f.vals[v]; has {
		return tt, true
	}
	switch v.(type) {
	case *ssa.Const, *ssa.Global, *ssa.Function:
		return f.val(v), true
	}
	return "", false
}

