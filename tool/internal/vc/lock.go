package vc

import (
	"fmt"
	"go/token"
	"go/types"
	"sort"
	"strings"

	"golang.org/x/tools/go/ssa"
)

// GuardDecl: `guards T.mu: f1, f2` and `lockinv T.mu: e` of one mutex field.
type GuardDecl struct {
	Key    string // pkgpath.T.mu
	Type   string
	Mu     string
	Fields []string
	Inv    []Clause
	Pkg    string
}

// guardFor finds the declaration for a mutex field address `&x.mu`.
func (f *Frame) guardFor(fa *ssa.FieldAddr) (*GuardDecl, *types.Struct, types.Type) {
	pt, ok := fa.X.Type().Underlying().(*types.Pointer)
	if !ok {
		return nil, nil, nil
	}
	st, ok := pt.Elem().Underlying().(*types.Struct)
	if !ok {
		return nil, nil, nil
	}
	nt, ok := pt.Elem().(*types.Named)
	if !ok || nt.Obj().Pkg() == nil {
		return nil, nil, nil
	}
	key := nt.Obj().Pkg().Path() + "." + nt.Obj().Name() + "." + st.Field(fa.Field).Name()
	if gd, ok := f.eng.CS.Guards[key]; ok {
		return gd, st, pt.Elem()
	}
	return nil, st, pt.Elem()
}

func heldHeap(gd *GuardDecl) string { return "G_held|" + gd.Key }

// lockOp models Lock/Unlock (and the entry/exit of a Broadcast.HoldLock
// callback) on the mutex whose address is the SSA value mu (DESIGN §5.1):
// at Lock the guarded fields of the owner are havocked (another goroutine may
// have run) and the lock invariant is assumed; at Unlock the invariant and the
// function's `cs` clauses are proved.
func (f *Frame) lockOp(mu ssa.Value, lock bool, reach string, st *State, pos token.Pos) {
	fa, ok := mu.(*ssa.FieldAddr)
	if !ok {
		if f.lockOpLocal(mu, lock, reach, st, pos) {
			return
		}
		f.eng.note("Lock/Unlock on a mutex that is not a struct field and has no `guards local` declaration: no effect on modelled state")
		return
	}
	gd, stt, elemT := f.guardFor(fa)
	if gd == nil {
		f.eng.note("Lock/Unlock on a mutex without `guards` declaration: no effect on modelled state")
		return
	}
	owner := f.val(fa.X)
	hh := heldHeap(gd)
	if lock {
		// `guards T.mu: ..., *U`: every object of type U is protected by the mutex as a whole:
		// another goroutine may have changed any field of any U (and anything whose allocation
		// type is not known to differ, such as maps and slice backing arrays) while the lock was
		// not held. Ghost heaps and which locks are held are unaffected.
		var tmods []string
		for _, fname := range gd.Fields {
			if !strings.HasPrefix(fname, "*") {
				continue
			}
			var nt types.Type
			for _, p := range f.eng.Prog.SSA.AllPackages() {
				if p.Pkg.Path() == gd.Pkg {
					if obj := p.Pkg.Scope().Lookup(fname[1:]); obj != nil {
						if tn, ok := obj.(*types.TypeName); ok {
							nt = tn.Type()
						}
					}
				}
			}
			if nt == nil {
				f.bail("guards %s: no type %s", gd.Key, fname[1:])
			}
			// objects the function allocated since it last released this lock (or since entry) have
			// not been shared yet and are kept
			since := st.heaps[sinceUnlockKey]
			if since == "" {
				since = f.top.alloc0
			}
			f.eng.note("objects of lock-protected types allocated by a function since it last released the lock (or since entry) are assumed not yet shared when it next takes the lock")
			tmods = append(tmods, fmt.Sprintf("type:%d:%s", f.eng.typeID(nt), since))
		}
		if len(tmods) > 0 {
			for name := range ghostHeaps {
				f.heap(st, "G_"+name)
			}
			after := f.havocState(st, &WriteSet{All: true}, "lock")
			for k, v := range st.heaps {
				if strings.HasPrefix(k, "G_") {
					after.heaps[k] = v
				}
			}
			f.frameFacts(st, after, "true", tmods)
			*st = *after
		}
		// heap well-formedness holds of the current heap versions with respect to everything
		// allocated so far (the facts emitted when a version was created only cover the objects
		// that existed then)
		var hns []string
		for hn := range st.heaps {
			hns = append(hns, hn)
		}
		sort.Strings(hns)
		for _, hn := range hns {
			f.heapWF(hn, st.heaps[hn], st.alloc)
		}
		// havoc guarded fields of this owner
		for _, fname := range gd.Fields {
			if strings.HasPrefix(fname, "*") {
				continue
			}
			idx := -1
			for i := 0; i < stt.NumFields(); i++ {
				if stt.Field(i).Name() == fname {
					idx = i
				}
			}
			if idx < 0 {
				f.bail("guards %s: type has no field %s", gd.Key, fname)
			}
			ft := stt.Field(idx).Type()
			hv := f.havocOf(ft, "locked_"+fname, st)
			f.store(st, fmt.Sprintf("(fldp %s %d)", owner, idx), ft, hv)
		}
		{
			hl := heldLock{key: gd.Key, owner: owner}
			for _, fname := range gd.Fields {
				if strings.HasPrefix(fname, "*") {
					continue
				}
				for i := 0; i < stt.NumFields(); i++ {
					if stt.Field(i).Name() == fname {
						hl.cells = append(hl.cells, immCell{fmt.Sprintf("(fldp %s %d)", owner, i), stt.Field(i).Type()})
					}
				}
			}
			st.held = append(append([]heldLock(nil), st.held...), hl)
		}
		// contents of guarded maps are re-read through the (havocked) field: unknown
		env := f.lockEnv(gd, owner, elemT, st, st)
		for _, inv := range gd.Inv {
			g, err := env.evalBool(inv.E)
			if err != nil {
				f.bail("lockinv %s %q: %v", gd.Key, inv.Text, err)
			}
			f.ctx.Fact(Implies(reach, g))
		}
		h := f.heap(st, hh)
		nh := f.ctx.Fresh("held", heapSort(hh))
		f.ctx.Fact(fmt.Sprintf("(= %s (store %s %s true))", nh, h, owner))
		st.heaps[hh] = nh
		if f.top.lockSnaps == nil {
			f.top.lockSnaps = map[string]*State{}
		}
		snapSt := st.clone()
		snapSt.snaps = nil
		f.top.lockSnaps[gd.Key] = snapSt
		f.top.lastLockSnap = snapSt
		if st.snaps == nil {
			st.snaps = map[string]*State{}
		} else {
			cp := make(map[string]*State, len(st.snaps)+2)
			for k, v := range st.snaps {
				cp[k] = v
			}
			st.snaps = cp
		}
		st.snaps[gd.Key] = snapSt
		st.snaps["#last"] = snapSt
		f.top.lastLockReach = reach
		f.top.csCount[gd.Key]++
		return
	}
	// unlock
	snap := st.snaps[gd.Key] // the Lock that this path took
	if snap == nil {
		snap = f.top.lockSnaps[gd.Key]
	}
	if snap == nil {
		snap = f.entry
	}
	env := f.lockEnv(gd, owner, elemT, st, snap)
	for _, inv := range gd.Inv {
		g, err := env.evalGoal(inv.E)
		if err != nil {
			f.bail("lockinv %s %q: %v", gd.Key, inv.Text, err)
		}
		f.oblig("lockinv", pos, fmt.Sprintf("%s.%s: %s", gd.Type, gd.Mu, inv.Text), reach, g)
	}
	// the function's `cs` clauses also bind sections executed inline by closures of the function
	// (deferred cleanup closures in particular: `cs T.mu#defer ensures ...`); they are evaluated in
	// the function's own scope at the point where the closure runs
	top := f.top
	inClosure, inDefer := false, false
	if f != top {
		for p := f.fn.Parent(); p != nil; p = p.Parent() {
			if p == top.fn {
				inClosure = true
			}
		}
		for fr := f; fr != nil && fr != top; fr = fr.parent {
			if fr.fromDefer {
				inDefer = true
			}
		}
	}
	if (f == top || inClosure) && top.contract != nil {
		for _, cs := range top.contract.CS {
			if cs.Mutex != gd.Type+"."+gd.Mu {
				continue
			}
			if cs.Ordinal == -1 && !inDefer {
				continue
			}
			if cs.Ordinal > 0 && (inDefer || cs.Ordinal != f.top.csCount[gd.Key]) {
				continue
			}
			cenv := top.funcEnv(st, snap)
			cenv.vars["self"] = cenv.sv(owner, types.NewPointer(elemT))
			if blk := top.curBlock; blk != nil {
				top.bindLocals(cenv, blk, st)
				top.bindBlockLocals(cenv, blk, st)
			}
			g, err := cenv.evalGoal(cs.E)
			if err != nil {
				where := ""
				if top.curBlock != nil {
					where = fmt.Sprintf(" (in block %d %s of %s)", top.curBlock.Index, top.curBlock.Comment, top.fn.Name())
				}
				f.bail("cs %s ensures %q: %v%s", cs.Mutex, cs.Text, err, where)
			}
			f.oblig("cs", pos, fmt.Sprintf("%s section %d: %s", cs.Mutex, f.top.csCount[gd.Key], cs.Text), reach, g)
			top.markCS(cs.Text)
		}
	}
	h := f.heap(st, hh)
	nh := f.ctx.Fresh("held", heapSort(hh))
	f.ctx.Fact(fmt.Sprintf("(= %s (store %s %s false))", nh, h, owner))
	st.heaps[hh] = nh
	st.heaps[sinceUnlockKey] = st.alloc
	st.dropHeld(gd.Key, owner)
}

// dropHeld removes the most recent entry for (key, owner).
func (s *State) dropHeld(key, owner string) {
	for i := len(s.held) - 1; i >= 0; i-- {
		if s.held[i].key == key && s.held[i].owner == owner {
			s.held = append(append([]heldLock(nil), s.held[:i]...), s.held[i+1:]...)
			return
		}
	}
}

func (f *Frame) lockEnv(gd *GuardDecl, owner string, elemT types.Type, st, old *State) *SpecEnv {
	env := &SpecEnv{f: f, vars: map[string]sval{}, st: st, old: old, reach: "true"}
	for _, p := range f.eng.Prog.SSA.AllPackages() {
		if p.Pkg.Path() == gd.Pkg {
			env.pkg = p
		}
	}
	env.vars["self"] = env.sv(owner, types.NewPointer(elemT))
	return env
}

// guardCheck: an access to a guarded field needs the lock (or a fresh owner).
func (f *Frame) guardCheck(addr ssa.Value, what string, pos token.Pos, reach string, st *State) {
	fa, ok := addr.(*ssa.FieldAddr)
	if !ok {
		return
	}
	pt, ok := fa.X.Type().Underlying().(*types.Pointer)
	if !ok {
		return
	}
	stt, ok := pt.Elem().Underlying().(*types.Struct)
	if !ok {
		return
	}
	nt, ok := pt.Elem().(*types.Named)
	if !ok || nt.Obj().Pkg() == nil {
		return
	}
	fname := stt.Field(fa.Field).Name()
	prefix := nt.Obj().Pkg().Path() + "." + nt.Obj().Name() + "."
	for key, gd := range f.eng.CS.Guards {
		if !strings.HasPrefix(key, prefix) {
			continue
		}
		for _, g := range gd.Fields {
			if g != fname {
				continue
			}
			owner := f.val(fa.X)
			held := fmt.Sprintf("(select %s %s)", f.heap(st, heldHeap(gd)), owner)
			goal := held
			if f.top.alloc0 != "" {
				goal = Or(held, fmt.Sprintf("(>= (pobj %s) %s)", owner, f.top.alloc0))
			}
			f.oblig("guard", pos, fmt.Sprintf("%s %s (guarded by %s.%s)", what, f.srcTextOr(pos, fname), gd.Type, gd.Mu), reach, goal)
		}
	}
}

// holdLock models Broadcast.HoldLock(cb): Lock; cb(broadcast, getWaitCh) inline; Unlock.
func (f *Frame) holdLock(instr *ssa.Call, cc *ssa.CallCommon, reach string, st *State) bool {
	if len(cc.Args) < 2 {
		return false
	}
	var fn *ssa.Function
	var bindings []string
	switch cb := cc.Args[1].(type) {
	case *ssa.MakeClosure:
		fn = cb.Fn.(*ssa.Function)
		for _, b := range cb.Bindings {
			bindings = append(bindings, f.val(b))
		}
	case *ssa.Function:
		fn = cb
	default:
		return false
	}
	if f.depth >= maxInlineDepth {
		return false
	}
	pos := cc.Pos()
	f.lockOp(cc.Args[0], true, reach, st, pos)
	// the two callback parameters are opaque functions with no effect on modelled state
	bc := f.ctx.Fresh("bcast_broadcast", "Ptr")
	gw := f.ctx.Fresh("bcast_getWaitCh", "Ptr")
	f.top.noopFuncs[bc] = true
	f.top.noopFuncs[gw] = true
	// with a declared `ghost heap bcastCalls ptr int`: calls of this `broadcast` are counted per
	// owner (the object whose Broadcast field is locked, or the Broadcast itself)
	if _, ok := ghostHeaps["bcastCalls"]; ok {
		owner := f.val(cc.Args[0])
		if fa, isFA := cc.Args[0].(*ssa.FieldAddr); isFA {
			owner = f.val(fa.X)
		}
		if f.top.bcastOwner == nil {
			f.top.bcastOwner = map[string]string{}
		}
		f.top.bcastOwner[bc] = owner
	}
	f.inlineCall(fn, []string{bc, gw}, bindings, reach, st)
	f.lockOp(cc.Args[0], false, reach, st, pos)
	return true
}

// localCell finds the cell of the local variable `name` of the function under contract as seen from
// frame f: a captured variable of f's function, or one of its own (heap-allocated) locals.
func (f *Frame) localCell(name string) (string, types.Type, bool) {
	for _, fv := range f.fn.FreeVars {
		if fv.Name() == name {
			if pt, ok := fv.Type().Underlying().(*types.Pointer); ok {
				if t, ok := f.vals[fv]; ok {
					return t, pt.Elem(), true
				}
			}
		}
	}
	for _, l := range f.fn.Locals {
		if l.Comment == name {
			if t, ok := f.vals[l]; ok {
				return t, l.Type().Underlying().(*types.Pointer).Elem(), true
			}
		}
	}
	return "", nil, false
}

// lockOpLocal: Lock/Unlock on a mutex that is a local variable `mu` of a function F, declared with
// `guards local F.mu: a, b` (the variables of F, shared with its closures, that the mutex protects)
// and `lockinv local F.mu: e` (e over those variables). At Lock the protected variables visible in
// this frame are havocked (a map variable denotes an arbitrary map afterwards) and the invariant is
// assumed; at Unlock the invariant and the `cs local.mu` clauses of the function being verified
// are proved, `old` = the state at this path's Lock.
func (f *Frame) lockOpLocal(mu ssa.Value, lock bool, reach string, st *State, pos token.Pos) bool {
	var name string
	var root *ssa.Function
	switch m := mu.(type) {
	case *ssa.Alloc:
		name, root = m.Comment, m.Parent()
	case *ssa.FreeVar:
		name, root = m.Name(), m.Parent()
	default:
		return false
	}
	for root != nil && root.Parent() != nil {
		root = root.Parent()
	}
	if name == "" || root == nil {
		return false
	}
	gd := f.eng.CS.Guards[FuncName(root)+"#"+name]
	if gd == nil {
		return false
	}
	owner := f.val(mu)
	hh := heldHeap(gd)
	top := f.top
	mkEnv := func(cur, old *State) *SpecEnv {
		env := f.funcEnv(cur, old)
		if f.curBlock != nil {
			f.bindLocals(env, f.curBlock, cur)
			f.bindBlockLocals(env, f.curBlock, cur)
		}
		for p := f.parent; p != nil; p = p.parent {
			// names of enclosing activations (HoldLock callbacks are nested closures)
			penv := p.funcEnv(cur, old)
			if p.curBlock != nil {
				p.bindLocals(penv, p.curBlock, cur)
				p.bindBlockLocals(penv, p.curBlock, cur)
			}
			for k, v := range penv.vars {
				if _, ok := env.vars[k]; !ok {
					env.vars[k] = v
				}
			}
			for k, v := range penv.cellVars {
				if env.cellVars == nil {
					env.cellVars = map[string]sval{}
				}
				if _, ok := env.cellVars[k]; !ok {
					env.cellVars[k] = v
				}
			}
		}
		return env
	}
	if lock {
		for _, vn := range gd.Fields {
			for fr := f; fr != nil; fr = fr.parent {
				if cell, et, ok := fr.localCell(vn); ok {
					hv := f.havocOf(et, "locked_"+vn, st)
					f.store(st, cell, et, hv)
					break
				}
			}
		}
		{
			hl := heldLock{key: gd.Key, owner: owner}
			for _, vn := range gd.Fields {
				for fr := f; fr != nil; fr = fr.parent {
					if cell, et, ok := fr.localCell(vn); ok {
						hl.cells = append(hl.cells, immCell{cell, et})
						break
					}
				}
			}
			st.held = append(append([]heldLock(nil), st.held...), hl)
		}
		env := mkEnv(st, st)
		for _, inv := range gd.Inv {
			g, err := env.evalBool(inv.E)
			if err != nil {
				if strings.Contains(err.Error(), "unknown identifier") {
					continue // the invariant mentions a variable this closure cannot see
				}
				f.bail("lockinv %s %q: %v", gd.Key, inv.Text, err)
			}
			f.ctx.Fact(Implies(reach, g))
		}
		h := f.heap(st, hh)
		nh := f.ctx.Fresh("held", heapSort(hh))
		f.ctx.Fact(fmt.Sprintf("(= %s (store %s %s true))", nh, h, owner))
		st.heaps[hh] = nh
		snapSt := st.clone()
		snapSt.snaps = nil
		cp := make(map[string]*State, len(st.snaps)+2)
		for k, v := range st.snaps {
			cp[k] = v
		}
		st.snaps = cp
		st.snaps[gd.Key] = snapSt
		st.snaps["#last"] = snapSt
		top.lastLockSnap = snapSt
		top.lastLockReach = reach
		top.csCount[gd.Key]++
		return true
	}
	snap := st.snaps[gd.Key]
	if snap == nil {
		snap = f.entry
	}
	if snap == nil {
		snap = top.entry
	}
	env := mkEnv(st, snap)
	for _, inv := range gd.Inv {
		g, err := env.evalGoal(inv.E)
		if err != nil {
			if strings.Contains(err.Error(), "unknown identifier") {
				continue
			}
			f.bail("lockinv %s %q: %v", gd.Key, inv.Text, err)
		}
		f.oblig("lockinv", pos, fmt.Sprintf("local %s: %s", gd.Mu, inv.Text), reach, g)
	}
	if top.contract != nil {
		for _, cs := range top.contract.CS {
			if cs.Mutex != "local."+gd.Mu {
				continue
			}
			if cs.Ordinal > 0 && cs.Ordinal != top.csCount[gd.Key] {
				continue // `cs local.mu#k`: the k-th section only
			}
			cenv := mkEnv(st, snap)
			g, err := cenv.evalGoal(cs.E)
			if err != nil {
				f.bail("cs %s ensures %q: %v", cs.Mutex, cs.Text, err)
			}
			f.oblig("cs", pos, fmt.Sprintf("%s section %d: %s", cs.Mutex, top.csCount[gd.Key], cs.Text), reach, g)
			top.markCS(cs.Text)
		}
	}
	h := f.heap(st, hh)
	nh := f.ctx.Fresh("held", heapSort(hh))
	f.ctx.Fact(fmt.Sprintf("(= %s (store %s %s false))", nh, h, owner))
	st.heaps[hh] = nh
	st.heaps[sinceUnlockKey] = st.alloc
	st.dropHeld(gd.Key, owner)
	return true
}

// markCS records that a `cs` clause of the contract applied to some critical section.
func (f *Frame) markCS(text string) {
	if f.csHit == nil {
		f.csHit = map[string]bool{}
	}
	f.csHit[text] = true
}
