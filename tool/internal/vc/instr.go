package vc

import (
	"fmt"
	"go/token"
	"go/types"
	"math/big"
	"sort"
	"strings"

	"golang.org/x/tools/go/ssa"
)

// syntacticModObjs returns the object-id terms that the given blocks may write
// among objects that already exist; ok=false means "unknown".
func (f *Frame) syntacticModObjs(blocks map[*ssa.BasicBlock]bool, st *State) []string {
	var objs []string
	unknown := false
	inside := func(v ssa.Value) bool {
		if in, ok := v.(ssa.Instruction); ok {
			return blocks[in.Block()]
		}
		return false
	}
	var rootPtr func(v ssa.Value) (string, bool)
	var rootSlice func(v ssa.Value) (string, bool)
	rootPtr = func(v ssa.Value) (string, bool) {
		switch x := v.(type) {
		case *ssa.FieldAddr:
			return rootPtr(x.X)
		case *ssa.IndexAddr:
			if _, ok := x.X.Type().Underlying().(*types.Slice); ok {
				return rootSlice(x.X)
			}
			return rootPtr(x.X)
		}
		if inside(v) {
			if _, isAlloc := v.(*ssa.Alloc); isAlloc {
				return "", true // fresh object allocated inside: not a pre-existing object
			}
			if f.freshResult(v) {
				return "", true // result of a call inside whose contract says it is freshly allocated
			}
			return "", false
		}
		return "(pobj " + f.val(v) + ")", true
	}
	rootSlice = func(v ssa.Value) (string, bool) {
		switch x := v.(type) {
		case *ssa.Slice:
			if _, ok := x.X.Type().Underlying().(*types.Slice); ok {
				return rootSlice(x.X)
			}
			if _, ok := x.X.Type().Underlying().(*types.Pointer); ok {
				return rootPtr(x.X)
			}
		}
		if inside(v) {
			if _, isMk := v.(*ssa.MakeSlice); isMk {
				return "", true
			}
			if f.freshResult(v) {
				return "", true
			}
			if phi, isPhi := v.(*ssa.Phi); isPhi {
				// a variable that holds nil or buffers made inside (var b []byte; b = fresh())
				all := true
				for _, e := range phi.Edges {
					if c, isConst := e.(*ssa.Const); isConst && c.IsNil() {
						continue
					}
					if e == ssa.Value(phi) {
						continue
					}
					if _, isPhi2 := e.(*ssa.Phi); isPhi2 {
						all = false // no recursion through further merges
						break
					}
					if s, ok := rootSlice(e); !ok || s != "" {
						all = false
						break
					}
				}
				if all {
					return "", true
				}
			}
			return "", false
		}
		return "(pobj (sbase " + f.val(v) + "))", true
	}
	add := func(s string, ok bool) {
		if !ok {
			unknown = true
			return
		}
		if s != "" {
			objs = append(objs, s)
		}
	}
	for b := range blocks {
		for _, in := range b.Instrs {
			switch x := in.(type) {
			case *ssa.Store:
				add(rootPtr(x.Addr))
			case *ssa.MapUpdate:
				add(rootPtr(x.Map))
			case *ssa.Go:
				// the spawned body runs concurrently, not in this path: its effects on
				// lock-protected state are modelled at Lock; unprotected shared state is
				// outside the model (noted)
			case *ssa.Call, *ssa.Defer:
				cc := in.(ssa.CallInstruction).Common()
				if bi, ok := cc.Value.(*ssa.Builtin); ok {
					switch bi.Name() {
					case "copy":
						add(rootSlice(cc.Args[0]))
					case "delete":
						add(rootPtr(cc.Args[0]))
					case "clear":
						unknown = true
					}
					continue
				}
				w := f.callWrites(cc)
				if w.All || len(w.Heaps) > 0 {
					// a callee under a framed contract without a modifies clause
					// changes no pre-existing object (its frame obligations are
					// verified, or it is an assumed contract)
					framedNoMods := false
					if cc.IsInvoke() {
						if ic := f.eng.ifaceContract(cc); ic != nil && !ic.WritesAll && len(ic.Modifies) == 0 && !ic.NoFrame {
							framedNoMods = true
						}
					} else if callee := cc.StaticCallee(); callee != nil {
						if fc := f.eng.contractFor(callee); fc != nil && !fc.Inline && !fc.NoFrame && !fc.WritesAll && len(fc.Modifies) == 0 {
							framedNoMods = true
							if !fc.SpecOnly && !fc.Trusted {
								f.top.usedContracts[FuncName(callee)] = true
							}
						} else if fc == nil && f.eng.freshOnly(f.ctx, callee) {
							framedNoMods = true
						}
					}
					if !framedNoMods {
						// a framed contract that modifies only (objects reached from) named parameters:
						// the roots of the actual arguments
						if roots, ok := f.modifiedArgRoots(cc); ok {
							for _, a := range roots {
								if _, isSl := a.Type().Underlying().(*types.Slice); isSl {
									add(rootSlice(a))
								} else if _, isP := a.Type().Underlying().(*types.Pointer); isP {
									add(rootPtr(a))
								} else {
									unknown = true
								}
							}
						} else {
							unknown = true
						}
					}
				}
			}
		}
	}
	if unknown {
		return []string{"*"}
	}
	return objs
}

// modifiedArgRoots: for a call to a static callee under a framed contract whose modifies clauses
// are all plain parameter names, the actual arguments bound to those parameters.
func (f *Frame) modifiedArgRoots(cc *ssa.CallCommon) ([]ssa.Value, bool) {
	callee := cc.StaticCallee()
	if callee == nil || cc.IsInvoke() {
		return nil, false
	}
	fc := f.eng.contractFor(callee)
	if fc == nil || fc.Inline || fc.NoFrame || fc.WritesAll || len(fc.Modifies) == 0 {
		return nil, false
	}
	var out []ssa.Value
	for _, m := range fc.Modifies {
		id, ok := m.E.(*EIdent)
		if !ok {
			return nil, false
		}
		found := false
		for i, p := range callee.Params {
			if p.Name() == id.Name && i < len(cc.Args) {
				out = append(out, cc.Args[i])
				found = true
			}
		}
		if !found {
			return nil, false
		}
	}
	if !fc.SpecOnly && !fc.Trusted {
		f.top.usedContracts[FuncName(callee)] = true
	}
	return out, true
}

// freshResult: v is the result of a call to a function whose contract lists that result as fresh.
func (f *Frame) freshResult(v ssa.Value) bool {
	idx := 0
	var call *ssa.Call
	switch x := v.(type) {
	case *ssa.Call:
		call = x
	case *ssa.Extract:
		c, ok := x.Tuple.(*ssa.Call)
		if !ok {
			return false
		}
		call, idx = c, x.Index
	default:
		return false
	}
	callee := call.Common().StaticCallee()
	if callee == nil || call.Common().IsInvoke() {
		return false
	}
	fc := f.eng.contractFor(callee)
	if fc == nil || fc.Inline {
		return false
	}
	res := callee.Signature.Results()
	names := map[string]bool{fmt.Sprintf("ret%d", idx): true}
	if res.Len() == 1 {
		names["ret"] = true
	}
	if idx < res.Len() && res.At(idx).Name() != "" {
		names[res.At(idx).Name()] = true
	}
	for _, c := range fc.Fresh {
		if id, ok := c.E.(*EIdent); ok && names[id.Name] {
			return true
		}
	}
	return false
}

func (f *Frame) execInstr(in ssa.Instruction, reach string, st *State) {
	ctx := f.ctx
	switch x := in.(type) {
	case *ssa.DebugRef:
		return
	case *ssa.Alloc:
		p := f.newObj(st, sanitize(x.Comment))
		et := x.Type().Underlying().(*types.Pointer).Elem()
		f.zeroInit(st, p, et)
		f.define(x, p)
		// the object was allocated as an et (used to delimit what a lock protects)
		f.ctx.Fact(f.eng.objTypeFact(p, et))
		if privateCell(x) {
			// the variable's address is never stored or passed on: no pointer held in the heap, in a
			// parameter or returned by a call refers to it
			f.ctx.Fact(fmt.Sprintf("(islocalobj (pobj %s))", p))
		}
		if assignedOnceCell(x) {
			// a variable assigned exactly once (at its declaration) and otherwise only read, also
			// by the closures capturing it: nothing that is havocked (external calls, loops) can
			// change it
			f.top.immCells = append(f.top.immCells, immCell{p, et})
		}
	case *ssa.BinOp:
		f.define(x, f.binop(x, reach))
	case *ssa.UnOp:
		f.unop(x, reach, st)
	case *ssa.Call:
		f.execCall(x, x.Common(), reach, st)
	case *ssa.ChangeInterface:
		f.setVal(x, f.val(x.X))
	case *ssa.ChangeType:
		f.setVal(x, f.val(x.X))
	case *ssa.Convert:
		f.convert(x, reach, st)
	case *ssa.MultiConvert:
		f.setVal(x, f.havocOf(x.Type(), x.Name(), st))
	case *ssa.Defer:
		f.defers = append(f.defers, deferred{x, reach})
	case *ssa.RunDefers:
		for i := len(f.defers) - 1; i >= 0; i-- {
			d := f.defers[i]
			// the deferred call runs iff its Defer instruction was reached.
			if !blockReaches(d.call.Block(), x.Block()) {
				// registered on a path that cannot lead here
				continue
			}
			before := st.clone()
			f.runningDefers = true
			f.execCall(nil, d.call.Common(), And(reach, d.reach), st)
			f.runningDefers = false
			if d.reach != reach && d.reach != "true" {
				// merge: state changes only if d.reach held
				merged := f.mergeStates([]inEdge{{nil, And(reach, d.reach), st}, {nil, And(reach, Not(d.reach)), before}})
				*st = *merged
			}
		}
	case *ssa.Extract:
		tup, ok := f.tuples[x.Tuple]
		if !ok {
			f.bail("extract from unknown tuple %s", x.Tuple.Name())
		}
		f.setVal(x, tup[x.Index])
	case *ssa.Field:
		si := ctx.structInfoOf(x.X.Type())
		f.define(x, "("+si.sels[x.Field]+" "+f.val(x.X)+")")
	case *ssa.FieldAddr:
		p := f.val(x.X)
		f.oblig("nil-deref", x.Pos(), f.srcTextOr(x.Pos(), x.X.Name()), reach, Not(Eq(p, "nil")))
		f.define(x, fmt.Sprintf("(fldp %s %d)", p, x.Field))
	case *ssa.Index:
		// array value or string index
		xv := f.val(x.X)
		iv := f.val(x.Index)
		switch u := x.X.Type().Underlying().(type) {
		case *types.Array:
			f.oblig("bounds", x.Pos(), f.srcTextOr(x.Pos(), "index"), reach, fmt.Sprintf("(and (<= 0 %s) (< %s %d))", iv, iv, u.Len()))
			f.define(x, fmt.Sprintf("(select %s %s)", xv, iv))
		case *types.Basic:
			// s[i] on a string: the i-th byte
			if u.Info()&types.IsString == 0 {
				f.bail("Index on %s", x.X.Type())
			}
			f.oblig("bounds", x.Pos(), f.srcTextOr(x.Pos(), "index"), reach, fmt.Sprintf("(and (<= 0 %s) (< %s (slen %s)))", iv, iv, xv))
			b := f.define(x, fmt.Sprintf("(sat %s %s)", xv, iv))
			ctx.Fact(fmt.Sprintf("(and (<= 0 %s) (<= %s 255))", b, b))
		default:
			f.bail("Index on %s", x.X.Type())
		}
	case *ssa.IndexAddr:
		xv := f.val(x.X)
		iv := f.val(x.Index)
		switch u := x.X.Type().Underlying().(type) {
		case *types.Slice:
			f.oblig("bounds", x.Pos(), f.srcTextOr(x.Pos(), "index"), reach, fmt.Sprintf("(and (<= 0 %s) (< %s (slen_ %s)))", iv, iv, xv))
			f.define(x, fmt.Sprintf("(selem %s %s)", xv, iv))
		case *types.Pointer:
			arr := u.Elem().Underlying().(*types.Array)
			f.oblig("nil-deref", x.Pos(), f.srcTextOr(x.Pos(), "index"), reach, Not(Eq(xv, "nil")))
			f.oblig("bounds", x.Pos(), f.srcTextOr(x.Pos(), "index"), reach, fmt.Sprintf("(and (<= 0 %s) (< %s %d))", iv, iv, arr.Len()))
			f.define(x, fmt.Sprintf("(elemp %s %s)", xv, iv))
		default:
			f.bail("IndexAddr on %s", x.X.Type())
		}
	case *ssa.Lookup:
		f.lookup(x, reach, st)
	case *ssa.MakeChan:
		p := f.newObj(st, "chan")
		f.define(x, p)
		if _, ok := ghostHeaps["chanClosed"]; ok {
			ctx.Fact(fmt.Sprintf("(not (select %s %s))", f.heap(st, "G_chanClosed"), p))
		}
	case *ssa.MakeClosure:
		p := f.newObj(st, "closure")
		n := f.define(x, p)
		cv := &closureVal{fn: x.Fn.(*ssa.Function)}
		for _, b := range x.Bindings {
			cv.bindings = append(cv.bindings, f.val(b))
		}
		f.top.closures[n] = cv
	case *ssa.MakeInterface:
		bx := f.define(x, f.makeIface(x.X.Type(), f.val(x.X)))
		f.bridgeGetters(x.X.Type(), f.val(x.X), bx, reach, st)
	case *ssa.MakeMap:
		p := f.newObj(st, "map")
		mt := x.Type().Underlying().(*types.Map)
		d, _ := mapHeaps(ctx, mt)
		hd := f.heap(st, d)
		hl := f.heap(st, mapLenHeap(ctx, mt))
		ks := ctx.sortOf(mt.Key())
		ctx.Fact(fmt.Sprintf("(= (select %s %s) ((as const (Array %s Bool)) false))", hd, p, ks))
		ctx.Fact(fmt.Sprintf("(= (select %s %s) 0)", hl, p))
		f.define(x, p)
	case *ssa.MakeSlice:
		ln, cp := f.val(x.Len), f.val(x.Cap)
		f.oblig("makeslice", x.Pos(), f.srcTextOr(x.Pos(), "make"), reach, fmt.Sprintf("(and (<= 0 %s) (<= %s %s))", ln, ln, cp))
		f.checkAllocLimit(x, ln, reach)
		base := f.newObj(st, "mkslice")
		f.ctx.Fact(fmt.Sprintf("(<= (objtype (pobj %s)) 0)", base))
		et := x.Type().Underlying().(*types.Slice).Elem()
		f.zeroInitElems(st, base, et)
		s := f.define(x, fmt.Sprintf("(mkslice %s 0 %s %s)", base, ln, cp))
		if isByteSlice(x.Type()) {
			_ = s
		}
	case *ssa.MapUpdate:
		f.mapUpdate(x, reach, st)
	case *ssa.Next:
		f.next(x, reach, st)
	case *ssa.Range:
		f.setVal(x, f.val(x.X))
		f.rangeInit(x, st)
	case *ssa.Panic:
		if !f.panicExpected(x, reach) {
			f.oblig("explicit-panic", x.Pos(), f.srcTextOr(x.Pos(), "panic"), reach, "false")
		}
	case *ssa.Phi:
		// handled at block entry
	case *ssa.Jump, *ssa.If:
	case *ssa.Return:
		var vs []string
		for _, r := range x.Results {
			vs = append(vs, f.val(r))
		}
		f.rets = append(f.rets, retPoint{reach, vs, st.clone(), x})
	case *ssa.Select:
		// nondeterministic choice; received values are arbitrary.
		for _, sst := range x.States {
			if sst.Dir == types.SendOnly && sst.Send != nil {
				f.sendAsserts(x, sst.Chan, sst.Send, reach, st)
			}
		}
		var tup []string
		tt := x.Type().(*types.Tuple)
		for i := 0; i < tt.Len(); i++ {
			tup = append(tup, f.havocOf(tt.At(i).Type(), fmt.Sprintf("%s_%d", x.Name(), i), st))
		}
		f.tuples[x] = tup
		if len(tup) > 0 {
			n := len(x.States)
			lo := 0
			if !x.Blocking {
				lo = -1
			}
			ctx.Fact(fmt.Sprintf("(and (<= %d %s) (< %s %d))", lo, tup[0], tup[0], n))
			for i, sst := range x.States {
				if sst.Dir == types.SendOnly && sst.Send != nil {
					f.countSend(sst.Chan, fmt.Sprintf("(= %s %d)", tup[0], i), st)
				}
			}
		}
	case *ssa.Send:
		// no effect on modelled state
		f.sendAsserts(x, x.Chan, x.X, reach, st)
		f.countSend(x.Chan, "true", st)
	case *ssa.Slice:
		f.sliceOp(x, reach, st)
	case *ssa.SliceToArrayPointer:
		xv := f.val(x.X)
		arr := x.Type().Underlying().(*types.Pointer).Elem().Underlying().(*types.Array)
		f.oblig("bounds", x.Pos(), f.srcTextOr(x.Pos(), "slice-to-array"), reach, fmt.Sprintf("(>= (slen_ %s) %d)", xv, arr.Len()))
		f.define(x, fmt.Sprintf("(ite (= (sbase %s) nil) nil (elemp (sbase %s) (soff %s)))", xv, xv, xv))
		f.bail("SliceToArrayPointer not modelled exactly")
	case *ssa.Store:
		addr := f.val(x.Addr)
		if _, isAlloc := x.Addr.(*ssa.Alloc); !isAlloc {
			if _, isG := x.Addr.(*ssa.Global); !isG {
				if _, isFA := x.Addr.(*ssa.FieldAddr); !isFA {
					if _, isIA := x.Addr.(*ssa.IndexAddr); !isIA {
						f.oblig("nil-deref", x.Pos(), f.srcTextOr(x.Pos(), "store"), reach, Not(Eq(addr, "nil")))
					}
				}
			}
		}
		f.guardCheck(x.Addr, "write of", x.Pos(), reach, st)
		f.storeFrameAt(x.Pos(), f.srcTextOr(x.Pos(), "store"), "(pobj "+addr+")", addr, "", reach)
		f.store(st, addr, x.Val.Type(), f.val(x.Val))
	case *ssa.TypeAssert:
		f.typeAssert(x, reach, st)
	case *ssa.Go:
		f.eng.note("go statements: the spawned body is not executed in the spawner's path")
		// `assert at call go.<callee>: e` states what holds when the goroutine is spawned
		cc := x.Common()
		name := "go.funcvalue"
		if cc.IsInvoke() {
			name = "go.invoke." + cc.Method.Name()
		} else if callee := cc.StaticCallee(); callee != nil {
			name = "go." + callee.Name()
		}
		var args []string
		if cc.IsInvoke() {
			args = append(args, f.val(cc.Value))
		}
		for _, a := range cc.Args {
			args = append(args, f.val(a))
		}
		f.goSiteAsserts(x, cc, name, args, reach, st)
	default:
		f.bail("unsupported instruction %T", in)
	}
}

func (f *Frame) srcTextOr(pos token.Pos, alt string) string {
	if s := f.srcText(pos); s != "" {
		return s
	}
	return alt
}

func (f *Frame) panicExpected(x *ssa.Panic, reach string) bool { return false }

func (f *Frame) checkAllocLimit(x *ssa.MakeSlice, ln string, reach string) {
	fc := f.top.contract
	if f != f.top {
		fc = f.eng.contractFor(f.fn)
	}
	if fc == nil {
		return
	}
	for _, a := range fc.Asserts {
		if strings.HasPrefix(a.Anchor, "make") {
			env := f.specEnv(f.entry, f.entry, nil)
			if f == f.top {
				// parameters (as on entry) may be mentioned
				env = f.funcEnv(f.entry, f.entry)
			}
			env.vars["size"] = sval{t: ln, sort: "Int"}
			g, err := env.evalGoal(a.E)
			if err != nil {
				f.bail("alloc-limit %q: %v", a.Text, err)
			}
			f.oblig("alloc-limit", x.Pos(), a.Text, reach, g)
		}
	}
}

// ---- interfaces ----

func (c *Ctx) boxFns(sort string) (box, unbox string) {
	switch sort {
	case "Int", "Bool", "Str", "Ptr", "Slice", "Iface":
		return "box_" + sort, "unbox_" + sort
	}
	s := sanitize(sort)
	b, u := "box_"+s, "unbox_"+s
	c.DeclareOnce(b, fmt.Sprintf("(declare-fun %s (%s) Int)\n(declare-fun %s (Int) %s)\n(assert (forall ((x %s)) (! (= (%s (%s x)) x) :pattern ((%s x)))))", b, sort, u, sort, sort, u, b, b))
	return b, u
}

func (f *Frame) makeIface(t types.Type, v string) string {
	if _, ok := t.Underlying().(*types.Interface); ok {
		return v
	}
	id := f.ctx.useTypeID(f.eng, t)
	box, _ := f.ctx.boxFns(f.ctx.sortOf(t))
	return fmt.Sprintf("(mkiface %d (%s %s))", id, box, v)
}

// useTypeID registers a concrete type in this context and emits implements facts.
func (c *Ctx) useTypeID(e *Engine, t types.Type) int {
	id := e.typeID(t)
	if c.concrete == nil {
		c.concrete = map[int]types.Type{}
		c.ifaces = map[int]*types.Interface{}
	}
	if _, ok := c.concrete[id]; !ok {
		c.concrete[id] = t
		for _, iid := range sortedIntKeys(c.ifaces) {
			c.Fact(fmt.Sprintf("(= (implements %d %d) %v)", id, iid, types.Implements(t, c.ifaces[iid])))
		}
	}
	return id
}

func (c *Ctx) useIfaceID(e *Engine, t types.Type) int {
	id := e.typeID(t)
	if c.concrete == nil {
		c.concrete = map[int]types.Type{}
		c.ifaces = map[int]*types.Interface{}
	}
	if _, ok := c.ifaces[id]; !ok {
		it := t.Underlying().(*types.Interface)
		c.ifaces[id] = it
		c.Fact(fmt.Sprintf("(not (implements 0 %d))", id))
		for _, cid := range sortedIntKeys(c.concrete) {
			c.Fact(fmt.Sprintf("(= (implements %d %d) %v)", cid, id, types.Implements(c.concrete[cid], it)))
		}
	}
	return id
}

func (f *Frame) typeAssert(x *ssa.TypeAssert, reach string, st *State) {
	v := f.val(x.X)
	var ok, res string
	if _, isIface := x.AssertedType.Underlying().(*types.Interface); isIface {
		iid := f.ctx.useIfaceID(f.eng, x.AssertedType)
		ok = fmt.Sprintf("(implements (ityp %s) %d)", v, iid)
		res = v
	} else {
		id := f.ctx.useTypeID(f.eng, x.AssertedType)
		ok = fmt.Sprintf("(= (ityp %s) %d)", v, id)
		_, unbox := f.ctx.boxFns(f.ctx.sortOf(x.AssertedType))
		res = fmt.Sprintf("(%s (ival %s))", unbox, v)
	}
	if x.CommaOk {
		okc := f.ctx.Fresh(x.Name()+"_ok", "Bool")
		f.ctx.Fact(Eq(okc, ok))
		rv := f.ctx.Fresh(x.Name()+"_v", f.ctx.sortOf(x.AssertedType))
		f.ctx.Fact(Eq(rv, Ite(okc, res, f.ctx.zero(x.AssertedType))))
		f.ctx.Fact(Implies(okc, f.ctx.typeFacts(rv, x.AssertedType, st.alloc)))
		f.tuples[x] = []string{rv, okc}
		return
	}
	f.oblig("type-assert", x.Pos(), f.srcTextOr(x.Pos(), "type assertion"), reach, ok)
	rv := f.define(x, res)
	f.ctx.Fact(f.ctx.typeFacts(rv, x.AssertedType, st.alloc))
}

// ---- arithmetic ----

func pow2(n int) string { return new(big.Int).Lsh(big.NewInt(1), uint(n)).String() }

func bitsOf(t types.Type) (int, bool) {
	b, ok := t.Underlying().(*types.Basic)
	if !ok {
		return 0, false
	}
	switch b.Kind() {
	case types.Int8, types.Uint8:
		return 8, true
	case types.Int16, types.Uint16:
		return 16, true
	case types.Int32, types.Uint32:
		return 32, true
	case types.Int, types.Int64, types.Uint, types.Uint64, types.Uintptr:
		return 64, true
	}
	return 0, false
}

// wrap reduces a mathematical integer to the range of type t.
func wrapTo(term string, t types.Type) string {
	bits, ok := bitsOf(t)
	if !ok {
		return term
	}
	m := pow2(bits)
	if isUnsigned(t) {
		return fmt.Sprintf("(mod %s %s)", term, m)
	}
	h := pow2(bits - 1)
	return fmt.Sprintf("(- (mod (+ %s %s) %s) %s)", term, h, m, h)
}

func (f *Frame) binop(x *ssa.BinOp, reach string) string {
	a, b := f.val(x.X), f.val(x.Y)
	t := x.X.Type()
	srt := f.ctx.sortOf(t)
	switch x.Op {
	case token.EQL:
		return f.eqTerm(a, b, t)
	case token.NEQ:
		return Not(f.eqTerm(a, b, t))
	}
	switch srt {
	case "Bool":
		switch x.Op {
		case token.LAND, token.AND:
			return And(a, b)
		case token.LOR, token.OR:
			return Or(a, b)
		case token.XOR:
			return fmt.Sprintf("(xor %s %s)", a, b)
		}
	case "Str":
		switch x.Op {
		case token.ADD:
			return fmt.Sprintf("(scat %s %s)", a, b)
		case token.LSS:
			return f.ctx.strLess(a, b)
		case token.GTR:
			return f.ctx.strLess(b, a)
		case token.LEQ:
			return Not(f.ctx.strLess(b, a))
		case token.GEQ:
			return Not(f.ctx.strLess(a, b))
		}
	case "Real":
		ops := map[token.Token]string{token.ADD: "+", token.SUB: "-", token.MUL: "*", token.QUO: "/", token.LSS: "<", token.LEQ: "<=", token.GTR: ">", token.GEQ: ">="}
		if o, ok := ops[x.Op]; ok {
			return fmt.Sprintf("(%s %s %s)", o, a, b)
		}
	case "Int":
		switch x.Op {
		case token.LSS:
			return fmt.Sprintf("(< %s %s)", a, b)
		case token.LEQ:
			return fmt.Sprintf("(<= %s %s)", a, b)
		case token.GTR:
			return fmt.Sprintf("(> %s %s)", a, b)
		case token.GEQ:
			return fmt.Sprintf("(>= %s %s)", a, b)
		case token.ADD, token.SUB, token.MUL:
			op := map[token.Token]string{token.ADD: "+", token.SUB: "-", token.MUL: "*"}[x.Op]
			r := fmt.Sprintf("(%s %s %s)", op, a, b)
			if isUnsigned(x.Type()) {
				return wrapTo(r, x.Type())
			}
			if f.top.contract != nil && f.top.contract.NoSweep["overflow"] || !f.eng.CheckOverflow {
				f.eng.note("signed integer +,-,* treated as mathematical (no overflow obligation generated)")
				return r
			}
			lo, hi, _ := intRange(x.Type().Underlying().(*types.Basic))
			f.oblig("overflow", x.Pos(), f.srcTextOr(x.Pos(), "arith"), reach, fmt.Sprintf("(and (<= %s %s) (<= %s %s))", bigLit(lo), r, r, bigLit(hi)))
			return r
		case token.QUO, token.REM:
			f.oblig("div-by-zero", x.Pos(), f.srcTextOr(x.Pos(), "division"), reach, Not(Eq(b, "0")))
			// Go truncates toward zero; SMT div/mod are Euclidean/floor for positive divisor.
			if x.Op == token.QUO {
				return fmt.Sprintf("(ite (>= %s 0) (ite (> %s 0) (div %s %s) (- (div %s (- %s)))) (ite (> %s 0) (- (div (- %s) %s)) (div (- %s) (- %s))))", a, b, a, b, a, b, b, a, b, a, b)
			}
			return fmt.Sprintf("(ite (>= %s 0) (mod %s (abs %s)) (- (mod (- %s) (abs %s))))", a, a, b, a, b)
		case token.AND:
			if m, ok := maskBits(x.Y); ok {
				return fmt.Sprintf("(mod %s %s)", a, pow2(m))
			}
			if m, ok := maskBits(x.X); ok {
				return fmt.Sprintf("(mod %s %s)", b, pow2(m))
			}
			return fmt.Sprintf("(band %s %s)", a, b)
		case token.OR:
			return fmt.Sprintf("(bor %s %s)", a, b)
		case token.XOR:
			return fmt.Sprintf("(bxor %s %s)", a, b)
		case token.AND_NOT:
			return fmt.Sprintf("(band %s (bxor %s %s))", a, b, "(- 1)")
		case token.SHL:
			if c, ok := x.Y.(*ssa.Const); ok {
				if k, ok2 := constInt(c); ok2 && k >= 0 && k < 64 {
					return wrapTo(fmt.Sprintf("(* %s %s)", a, pow2(int(k))), x.Type())
				}
			}
			n := f.ctx.Fresh("shl", "Int")
			f.ctx.Fact(f.ctx.typeFacts(n, x.Type(), ""))
			return n
		case token.SHR:
			if c, ok := x.Y.(*ssa.Const); ok {
				if k, ok2 := constInt(c); ok2 && k >= 0 && k < 64 {
					return fmt.Sprintf("(div %s %s)", a, pow2(int(k)))
				}
			}
			n := f.ctx.Fresh("shr", "Int")
			f.ctx.Fact(f.ctx.typeFacts(n, x.Type(), ""))
			return n
		}
	}
	f.bail("unsupported binop %s on %s", x.Op, t)
	return ""
}

func constInt(c *ssa.Const) (int64, bool) {
	if c.Value == nil {
		return 0, false
	}
	if !isInteger(c.Type()) {
		return 0, false
	}
	return c.Int64(), true
}

// maskBits reports whether v is the constant 2^k-1.
func maskBits(v ssa.Value) (int, bool) {
	c, ok := v.(*ssa.Const)
	if !ok {
		return 0, false
	}
	k, ok := constInt(c)
	if !ok || k <= 0 {
		return 0, false
	}
	n := 0
	for x := k; x > 0; x >>= 1 {
		if x&1 == 0 {
			return 0, false
		}
		n++
	}
	return n, true
}

func (c *Ctx) strLess(a, b string) string {
	c.DeclareOnce("str_lt", `(declare-fun str_lt (Str Str) Bool)
(assert (forall ((a Str)) (! (not (str_lt a a)) :pattern ((str_lt a a)))))
(assert (forall ((a Str) (b Str)) (! (or (str_lt a b) (str_lt b a) (= a b)) :pattern ((str_lt a b)))))
(assert (forall ((a Str) (b Str)) (! (not (and (str_lt a b) (str_lt b a))) :pattern ((str_lt a b)))))
(assert (forall ((a Str) (b Str) (c Str)) (! (=> (and (str_lt a b) (str_lt b c)) (str_lt a c)) :pattern ((str_lt a b) (str_lt b c)))))`)
	return fmt.Sprintf("(str_lt %s %s)", a, b)
}

func (f *Frame) eqTerm(a, b string, t types.Type) string {
	if _, ok := t.Underlying().(*types.Interface); ok {
		// comparison with the nil interface: only the dynamic type matters
		if a == "niliface" {
			return fmt.Sprintf("(= (ityp %s) 0)", b)
		}
		if b == "niliface" {
			return fmt.Sprintf("(= (ityp %s) 0)", a)
		}
	}
	if _, ok := t.Underlying().(*types.Slice); ok {
		if a == "nilslice" {
			return fmt.Sprintf("(= (sbase %s) nil)", b)
		}
		if b == "nilslice" {
			return fmt.Sprintf("(= (sbase %s) nil)", a)
		}
	}
	return Eq(a, b)
}

func (f *Frame) unop(x *ssa.UnOp, reach string, st *State) {
	switch x.Op {
	case token.MUL: // load
		addr := f.val(x.X)
		if g, ok := x.X.(*ssa.Global); ok {
			if t, ok2 := f.sentinel(g); ok2 {
				f.setVal(x, t)
				return
			}
		}
		switch x.X.(type) {
		case *ssa.Alloc, *ssa.Global, *ssa.FieldAddr, *ssa.IndexAddr:
		default:
			f.oblig("nil-deref", x.Pos(), f.srcTextOr(x.Pos(), "*"+x.X.Name()), reach, Not(Eq(addr, "nil")))
		}
		f.guardCheck(x.X, "read of", x.Pos(), reach, st)
		hint := x.Name()
		f.vals[x] = f.loadVal(st, addr, x.Type(), hint)
		if fa, ok := x.X.(*ssa.FieldAddr); ok {
			if nt := namedStructOf(fa.X.Type()); nt != nil {
				f.initOnlyFact(st, f.val(fa.X), nt, fa.Field, addr, f.vals[x], x.Type())
			}
		}
	case token.NOT:
		f.define(x, Not(f.val(x.X)))
	case token.SUB:
		if f.ctx.sortOf(x.Type()) == "Real" {
			f.define(x, fmt.Sprintf("(- %s)", f.val(x.X)))
			return
		}
		f.define(x, wrapTo(fmt.Sprintf("(- %s)", f.val(x.X)), x.Type()))
	case token.XOR:
		if isUnsigned(x.Type()) {
			bits, _ := bitsOf(x.Type())
			f.define(x, fmt.Sprintf("(- %s 1 %s)", pow2(bits), f.val(x.X)))
		} else {
			f.define(x, fmt.Sprintf("(- (- %s) 1)", f.val(x.X)))
		}
	case token.ARROW:
		if x.CommaOk {
			tt := x.Type().(*types.Tuple)
			f.tuples[x] = []string{f.havocOf(tt.At(0).Type(), x.Name()+"_v", st), f.ctx.Fresh(x.Name()+"_ok", "Bool")}
		} else {
			f.vals[x] = f.havocOf(x.Type(), x.Name(), st)
		}
	default:
		f.bail("unsupported unop %s", x.Op)
	}
}

// sentinel: package-level variables assigned exactly once, in their package
// initializer, whose address is never taken anywhere in the loaded program are
// immutable. Error-typed ones are distinct non-nil constants; ones initialised
// with a constant have that constant value.
func (f *Frame) sentinel(g *ssa.Global) (string, bool) {
	gi := f.eng.globalInfo(g)
	if gi == nil || !gi.immutable {
		return "", false
	}
	et := g.Type().Underlying().(*types.Pointer).Elem()
	name := g.Pkg.Pkg.Path() + "." + g.Name()
	if gi.initConst != nil {
		return f.constTerm(gi.initConst), true
	}
	if _, ok := et.Underlying().(*types.Interface); ok && gi.initNonNil {
		return f.ctx.sentinelTerm(name), true
	}
	return "", false
}

func (c *Ctx) sentinelTerm(name string) string {
	n := "G_" + sanitize(strings.TrimPrefix(name, modPrefix))
	if c.sentinels == nil {
		c.sentinels = map[string]bool{}
	}
	if !c.sentinels[n] {
		c.Decls = append(c.Decls, fmt.Sprintf("(declare-fun %s () Iface)", n))
		c.Fact(fmt.Sprintf("(not (= (ityp %s) 0))", n))
		var others []string
		for o := range c.sentinels {
			others = append(others, o)
		}
		sort.Strings(others)
		for _, o := range others {
			c.Fact(fmt.Sprintf("(not (= %s %s))", n, o))
		}
		c.sentinels[n] = true
	}
	return n
}

type globalInfo struct {
	immutable  bool
	initConst  *ssa.Const
	initNonNil bool
}

// globalInfo scans the whole loaded program once.
func (e *Engine) globalInfo(g *ssa.Global) *globalInfo {
	if e.globals == nil {
		e.globals = map[*ssa.Global]*globalInfo{}
		stores := map[*ssa.Global]int{}
		bad := map[*ssa.Global]bool{}
		initVal := map[*ssa.Global]ssa.Value{}
		for _, fn := range e.Prog.Funcs {
			if fn.Blocks == nil {
				continue
			}
			isInit := fn.Name() == "init" && fn.Parent() == nil
			for _, b := range fn.Blocks {
				for _, in := range b.Instrs {
					switch x := in.(type) {
					case *ssa.Store:
						if gg, ok := x.Addr.(*ssa.Global); ok {
							if !isInit || fn.Pkg != gg.Pkg {
								bad[gg] = true
							}
							stores[gg]++
							initVal[gg] = x.Val
							if vg, ok := x.Val.(*ssa.Global); ok {
								bad[vg] = true // address stored somewhere
							}
							continue
						}
					case *ssa.UnOp:
						if _, ok := x.X.(*ssa.Global); ok {
							continue
						}
					case *ssa.DebugRef:
						continue
					}
					for _, op := range in.Operands(nil) {
						if gg, ok := (*op).(*ssa.Global); ok {
							bad[gg] = true // address escapes (FieldAddr of global structs etc. also land here)
						}
					}
				}
			}
		}
		for gg, n := range stores {
			gi := &globalInfo{immutable: n == 1 && !bad[gg]}
			if gi.immutable {
				switch v := initVal[gg].(type) {
				case *ssa.Const:
					gi.initConst = v
				case *ssa.Call:
					if callee := v.Common().StaticCallee(); callee != nil {
						switch FuncName(callee) {
						case "errors.New", "github.com/pkg/errors.New", "fmt.Errorf", "github.com/pkg/errors.Errorf":
							gi.initNonNil = true
						}
					}
				case *ssa.MakeInterface:
					// var G Iface = concreteValue: a boxed value is never the nil interface
					gi.initNonNil = true
				case *ssa.Convert:
					if c, ok := v.X.(*ssa.Const); ok && isString(v.Type()) && isString(c.Type()) {
						gi.initConst = ssa.NewConst(c.Value, v.Type())
					}
				case *ssa.ChangeType:
					if c, ok := v.X.(*ssa.Const); ok {
						gi.initConst = ssa.NewConst(c.Value, v.Type())
					}
				}
			}
			e.globals[gg] = gi
		}
	}
	return e.globals[g]
}

func (f *Frame) convert(x *ssa.Convert, reach string, st *State) {
	from, to := x.X.Type(), x.Type()
	v := f.val(x.X)
	switch {
	case isInteger(from) && isInteger(to):
		fb, _ := bitsOf(from)
		tb, _ := bitsOf(to)
		if isUnsigned(from) == isUnsigned(to) && tb >= fb || (isUnsigned(from) && !isUnsigned(to) && tb > fb) {
			f.define(x, v)
			return
		}
		f.define(x, wrapTo(v, to))
	case isString(from) && isString(to):
		f.define(x, v)
	case isByteSlice(from) && isString(to):
		f.define(x, fmt.Sprintf("(content %s %s)", f.heap(st, "H_uint8"), v))
	case isString(from) && isByteSlice(to):
		base := f.newObj(st, "bytes")
		f.ctx.Fact(fmt.Sprintf("(<= (objtype (pobj %s)) 0)", base))
		s := f.define(x, fmt.Sprintf("(mkslice %s 0 (slen %s) (slen %s))", base, v, v))
		h := f.heap(st, "H_uint8")
		f.ctx.Fact(fmt.Sprintf("(= (content %s %s) %s)", h, s, v))
		f.ctx.Fact(fmt.Sprintf("(forall ((i Int)) (! (=> (and (<= 0 i) (< i (slen %s))) (= (select %s (selem %s i)) (sat %s i))) :pattern ((select %s (selem %s i)))))", v, h, s, v, h, s))
	case isRuneSlice(from) && isString(to):
		// string([]rune{c}) with one ASCII rune is the one-byte string c (the only case modelled;
		// anything else is an arbitrary string)
		r := f.havocOf(to, x.Name(), st)
		e0 := fmt.Sprintf("(select %s (selem %s 0))", f.heap(st, "H_int32"), v)
		one := fmt.Sprintf("(and (= (slen_ %s) 1) (<= 0 %s) (< %s 128))", v, e0, e0)
		f.ctx.Fact(fmt.Sprintf("(=> %s (and (= (slen %s) 1) (= (sat %s 0) %s)))", one, r, r, e0))
		f.ctx.Fact(fmt.Sprintf("(=> %s (forall ((b Str)) (! (=> (and (= (slen b) 1) (= (sat b 0) %s)) (= b %s)) :pattern ((slen b)))))", one, e0, r))
		f.vals[x] = r
	case f.ctx.sortOf(from) == f.ctx.sortOf(to) && f.ctx.sortOf(from) != "Int":
		f.define(x, v)
	default:
		f.vals[x] = f.havocOf(to, x.Name(), st)
		f.eng.note(fmt.Sprintf("conversion %s -> %s modelled as arbitrary value", from, to))
	}
}

func (f *Frame) sliceOp(x *ssa.Slice, reach string, st *State) {
	xv := f.val(x.X)
	lo := "0"
	if x.Low != nil {
		lo = f.val(x.Low)
	}
	text := f.srcTextOr(x.Pos(), "slice")
	switch u := x.X.Type().Underlying().(type) {
	case *types.Slice:
		hi := fmt.Sprintf("(slen_ %s)", xv)
		if x.High != nil {
			hi = f.val(x.High)
		}
		mx := fmt.Sprintf("(scap %s)", xv)
		if x.Max != nil {
			mx = f.val(x.Max)
			f.oblig("bounds", x.Pos(), text, reach, fmt.Sprintf("(and (<= 0 %s) (<= %s %s) (<= %s %s) (<= %s (scap %s)))", lo, lo, hi, hi, mx, mx, xv))
		} else {
			f.oblig("bounds", x.Pos(), text, reach, fmt.Sprintf("(and (<= 0 %s) (<= %s %s) (<= %s (scap %s)))", lo, lo, hi, hi, xv))
		}
		// a nil slice resliced [0:0] stays nil
		f.define(x, fmt.Sprintf("(subslice %s %s %s %s)", xv, lo, hi, mx))
	case *types.Basic: // string
		hi := fmt.Sprintf("(slen %s)", xv)
		if x.High != nil {
			hi = f.val(x.High)
		}
		f.oblig("bounds", x.Pos(), text, reach, fmt.Sprintf("(and (<= 0 %s) (<= %s %s) (<= %s (slen %s)))", lo, lo, hi, hi, xv))
		f.define(x, fmt.Sprintf("(ssub %s %s %s)", xv, lo, hi))
	case *types.Pointer:
		arr := u.Elem().Underlying().(*types.Array)
		hi := fmt.Sprint(arr.Len())
		if x.High != nil {
			hi = f.val(x.High)
		}
		mx := fmt.Sprint(arr.Len())
		if x.Max != nil {
			mx = f.val(x.Max)
		}
		f.oblig("nil-deref", x.Pos(), text, reach, Not(Eq(xv, "nil")))
		f.oblig("bounds", x.Pos(), text, reach, fmt.Sprintf("(and (<= 0 %s) (<= %s %s) (<= %s %s) (<= %s %d))", lo, lo, hi, hi, mx, mx, arr.Len()))
		f.define(x, fmt.Sprintf("(mkslice %s %s (- %s %s) (- %s %s))", xv, lo, hi, lo, mx, lo))
	default:
		f.bail("Slice on %s", x.X.Type())
	}
}

// ---- maps ----

func (f *Frame) lookup(x *ssa.Lookup, reach string, st *State) {
	xv := f.val(x.X)
	iv := f.val(x.Index)
	switch u := x.X.Type().Underlying().(type) {
	case *types.Basic: // string index
		f.oblig("bounds", x.Pos(), f.srcTextOr(x.Pos(), "index"), reach, fmt.Sprintf("(and (<= 0 %s) (< %s (slen %s)))", iv, iv, xv))
		bv := f.define(x, fmt.Sprintf("(sat %s %s)", xv, iv))
		f.ctx.Fact(f.ctx.typeFacts(bv, x.Type(), ""))
	case *types.Map:
		d, vn := mapHeaps(f.ctx, u)
		hd, hv := f.heap(st, d), f.heap(st, vn)
		in := fmt.Sprintf("(and (not (= %s nil)) (select (select %s %s) %s))", xv, hd, xv, iv)
		val := fmt.Sprintf("(ite %s (select (select %s %s) %s) %s)", in, hv, xv, iv, f.ctx.zero(u.Elem()))
		if x.CommaOk {
			okc := f.ctx.Fresh(x.Name()+"_ok", "Bool")
			f.ctx.Fact(Eq(okc, in))
			rv := f.ctx.Fresh(x.Name()+"_v", f.ctx.sortOf(u.Elem()))
			f.ctx.Fact(Eq(rv, val))
			f.ctx.Fact(f.ctx.typeFacts(rv, u.Elem(), st.alloc))
			f.tuples[x] = []string{rv, okc}
		} else {
			rv := f.define(x, val)
			f.ctx.Fact(f.ctx.typeFacts(rv, u.Elem(), st.alloc))
		}
	default:
		f.bail("Lookup on %s", x.X.Type())
	}
}

func (f *Frame) mapLenFacts(st *State, m string, mt *types.Map) {
	d, _ := mapHeaps(f.ctx, mt)
	hd, hl := f.heap(st, d), f.heap(st, mapLenHeap(f.ctx, mt))
	ks := f.ctx.sortOf(mt.Key())
	f.ctx.Fact(fmt.Sprintf("(>= (select %s %s) 0)", hl, m))
	f.ctx.Fact(fmt.Sprintf("(forall ((k %s)) (! (=> (select (select %s %s) k) (>= (select %s %s) 1)) :pattern ((select (select %s %s) k))))", ks, hd, m, hl, m, hd, m))
}

func (f *Frame) mapUpdate(x *ssa.MapUpdate, reach string, st *State) {
	m := f.val(x.Map)
	k := f.val(x.Key)
	v := f.val(x.Value)
	mt := x.Map.Type().Underlying().(*types.Map)
	f.oblig("nil-map-write", x.Pos(), f.srcTextOr(x.Pos(), "map update"), reach, Not(Eq(m, "nil")))
	f.storeFrame(x.Pos(), f.srcTextOr(x.Pos(), "map update"), "(pobj "+m+")", reach)
	f.mapStore(st, m, k, v, mt, true)
}

func (f *Frame) mapStore(st *State, m, k, v string, mt *types.Map, insert bool) {
	d, vn := mapHeaps(f.ctx, mt)
	ln := mapLenHeap(f.ctx, mt)
	hd, hv, hl := f.heap(st, d), f.heap(st, vn), f.heap(st, ln)
	nd := f.ctx.Fresh("Mdom", heapSort(d))
	nl := f.ctx.Fresh("Mlen", heapSort(ln))
	was := fmt.Sprintf("(select (select %s %s) %s)", hd, m, k)
	if insert {
		nv := f.ctx.Fresh("Mval", heapSort(vn))
		f.ctx.Fact(fmt.Sprintf("(= %s (store %s %s (store (select %s %s) %s true)))", nd, hd, m, hd, m, k))
		f.ctx.Fact(fmt.Sprintf("(= %s (store %s %s (store (select %s %s) %s %s)))", nv, hv, m, hv, m, k, v))
		f.ctx.Fact(fmt.Sprintf("(= %s (store %s %s (+ (select %s %s) (ite %s 0 1))))", nl, hl, m, hl, m, was))
		st.heaps[vn] = nv
	} else {
		f.ctx.Fact(fmt.Sprintf("(= %s (ite (= %s nil) %s (store %s %s (store (select %s %s) %s false))))", nd, m, hd, hd, m, hd, m, k))
		f.ctx.Fact(fmt.Sprintf("(= %s (ite (= %s nil) %s (store %s %s (- (select %s %s) (ite %s 1 0)))))", nl, m, hl, hl, m, hl, m, was))
	}
	st.heaps[d] = nd
	st.heaps[ln] = nl
}

func (f *Frame) next(x *ssa.Next, reach string, st *State) {
	rng := x.Iter.(*ssa.Range)
	tt := x.Type().(*types.Tuple)
	okc := f.ctx.Fresh(x.Name()+"_ok", "Bool")
	if x.IsString {
		f.tuples[x] = []string{okc, f.havocOf(tt.At(1).Type(), x.Name()+"_k", st), f.havocOf(tt.At(2).Type(), x.Name()+"_v", st)}
		return
	}
	mt := rng.X.Type().Underlying().(*types.Map)
	m := f.val(rng.X)
	d, vn := mapHeaps(f.ctx, mt)
	hd, hv := f.heap(st, d), f.heap(st, vn)
	k := f.ctx.Fresh(x.Name()+"_k", f.ctx.sortOf(mt.Key()))
	v := f.ctx.Fresh(x.Name()+"_v", f.ctx.sortOf(mt.Elem()))
	f.ctx.Fact(Implies(okc, fmt.Sprintf("(and (not (= %s nil)) (select (select %s %s) %s) (= %s (select (select %s %s) %s)))", m, hd, m, k, v, hv, m, k)))
	f.ctx.Fact(Implies(okc, f.ctx.typeFacts(k, mt.Key(), st.alloc)))
	f.ctx.Fact(Implies(okc, f.ctx.typeFacts(v, mt.Elem(), st.alloc)))
	f.mapLenFacts(st, m, mt)
	f.rangeAdvance(x, okc, k, m, hd, mt, st)
	f.tuples[x] = []string{okc, k, v}
}

func sortedIntKeys[V any](m map[int]V) []int {
	var ks []int
	for k := range m {
		ks = append(ks, k)
	}
	sort.Ints(ks)
	return ks
}

// assignedOnceCell: x is a local variable cell whose address is used only by one Store (in the
// block of the Alloc itself), by loads, and by closures that only load it (transitively).
func assignedOnceCell(x *ssa.Alloc) bool {
	if x.Referrers() == nil {
		return false
	}
	stores := 0
	var readOnly func(v ssa.Value, refs []ssa.Instruction, depth int) bool
	readOnly = func(v ssa.Value, refs []ssa.Instruction, depth int) bool {
		if depth > 4 {
			return false
		}
		for _, r := range refs {
			switch u := r.(type) {
			case *ssa.DebugRef:
			case *ssa.UnOp:
				if u.Op != token.MUL {
					return false
				}
			case *ssa.Store:
				if u.Addr != v || u.Val == v || depth > 0 || u.Block() != x.Block() {
					return false
				}
				stores++
			case *ssa.MakeClosure:
				fn, ok := u.Fn.(*ssa.Function)
				if !ok {
					return false
				}
				for i, b := range u.Bindings {
					if b != v {
						continue
					}
					if i >= len(fn.FreeVars) {
						return false
					}
					fv := fn.FreeVars[i]
					if fv.Referrers() == nil || !readOnly(fv, *fv.Referrers(), depth+1) {
						return false
					}
				}
			default:
				return false
			}
		}
		return true
	}
	return readOnly(x, *x.Referrers(), 0) && stores <= 1
}

// privateCell: the address of local variable x is used only to load from and store to it (also
// through field/element addresses and by closures capturing it): it never becomes a value held
// elsewhere.
func privateCell(x *ssa.Alloc) bool {
	if x.Referrers() == nil {
		return false
	}
	var ok func(v ssa.Value, refs []ssa.Instruction, depth int) bool
	ok = func(v ssa.Value, refs []ssa.Instruction, depth int) bool {
		if depth > 6 {
			return false
		}
		for _, r := range refs {
			switch u := r.(type) {
			case *ssa.DebugRef:
			case *ssa.UnOp:
				if u.Op != token.MUL {
					return false
				}
			case *ssa.Store:
				if u.Addr != v || u.Val == v {
					return false
				}
			case *ssa.FieldAddr:
				if u.Referrers() == nil || !ok(u, *u.Referrers(), depth+1) {
					return false
				}
			case *ssa.IndexAddr:
				if u.X != v || u.Referrers() == nil || !ok(u, *u.Referrers(), depth+1) {
					return false
				}
			case *ssa.MakeClosure:
				fn, isFn := u.Fn.(*ssa.Function)
				if !isFn {
					return false
				}
				for i, b := range u.Bindings {
					if b != v {
						continue
					}
					if i >= len(fn.FreeVars) {
						return false
					}
					fv := fn.FreeVars[i]
					if fv.Referrers() != nil && !ok(fv, *fv.Referrers(), depth+1) {
						return false
					}
				}
			default:
				return false
			}
		}
		return true
	}
	return ok(x, *x.Referrers(), 0)
}

// blockReaches: there is a control-flow path from block a to block b (or a == b).
func blockReaches(a, b *ssa.BasicBlock) bool {
	if a == nil || b == nil {
		return true
	}
	seen := map[*ssa.BasicBlock]bool{}
	stack := []*ssa.BasicBlock{a}
	for len(stack) > 0 {
		x := stack[len(stack)-1]
		stack = stack[:len(stack)-1]
		if x == b {
			return true
		}
		if seen[x] {
			continue
		}
		seen[x] = true
		stack = append(stack, x.Succs...)
	}
	return false
}
