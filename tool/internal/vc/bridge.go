package vc

import (
	"fmt"
	"go/types"
	"sort"
	"strings"

	"golang.org/x/tools/go/ssa"
)

// getterIfaces resolves the `ifacegetters` declarations to interface types (once).
func (e *Engine) getterIfaces() []*types.Named {
	if e.getterIfacesDone {
		return e.getterIfacesList
	}
	e.getterIfacesDone = true
	var names []string
	for n := range e.CS.IfaceGetters {
		names = append(names, n)
	}
	sort.Strings(names)
	for _, n := range names {
		i := strings.LastIndex(n, ".")
		if i < 0 {
			continue
		}
		pkgPath, typeName := n[:i], n[i+1:]
		for _, cand := range []string{pkgPath, modPrefix + pkgPath} {
			p, ok := e.Prog.AllPkgs[cand]
			if !ok || p.Types == nil {
				continue
			}
			if obj := p.Types.Scope().Lookup(typeName); obj != nil {
				if nt, ok := obj.Type().(*types.Named); ok {
					if _, isI := nt.Underlying().(*types.Interface); isI {
						e.getterIfacesList = append(e.getterIfacesList, nt)
					}
				}
			}
		}
	}
	return e.getterIfacesList
}

// bridgeGetters: when a concrete value is boxed into an interface, the stable
// pure getters of every `ifacegetters` interface it implements are tied to the
// concrete methods: im_<m>(boxed) == T.m(value), evaluated now (getter results
// are stable by the ifacegetters assumption). Only side-effect-free, loop-free
// concrete methods are used.
func (f *Frame) bridgeGetters(t types.Type, val, boxed string, reach string, st *State) {
	if _, isIface := t.Underlying().(*types.Interface); isIface {
		return
	}
	e := f.eng
	done := map[string]bool{}
	for _, gi := range e.getterIfaces() {
		it := gi.Underlying().(*types.Interface)
		if !types.Implements(t, it) {
			continue
		}
		for i := 0; i < it.NumMethods(); i++ {
			m := it.Method(i)
			sig := m.Type().(*types.Signature)
			if sig.Params().Len() != 0 || sig.Results().Len() != 1 || done[m.Name()] {
				continue
			}
			if !e.CS.isGetter(gi.Obj().Pkg().Path()+"."+gi.Obj().Name(), m.Name()) {
				continue
			}
			done[m.Name()] = true
			sel := e.Prog.SSA.MethodSets.MethodSet(t).Lookup(m.Pkg(), m.Name())
			if sel == nil {
				continue
			}
			fn := e.Prog.SSA.MethodValue(sel)
			if fn == nil || fn.Blocks == nil || fn.Synthetic != "" && !strings.Contains(fn.Synthetic, "wrapper") {
				continue
			}
			if w := e.writesOf(f.ctx, fn); w.All || len(w.Heaps) > 0 {
				continue
			}
			if len(e.loopsOf(fn).heads) > 0 || len(fn.Blocks) > 8 || f.depth >= maxInlineDepth {
				continue
			}
			key := boxed + "|" + m.Name()
			if f.top.bridged[key] {
				continue
			}
			f.top.bridged[key] = true
			res := f.tryInlinePure(fn, []string{val}, reach, st)
			if res == "" {
				continue
			}
			uf := f.pureMethodResults(m, sig, boxed, nil)[0]
			f.ctx.Fact(Implies(reach, Eq(uf, res)))
			if isByteSlice(sig.Results().At(0).Type()) {
				f.ctx.Fact(Implies(reach, fmt.Sprintf("(= %s (content %s %s))", f.getterBytes(m, boxed), f.heap(st, "H_uint8"), res)))
			}
		}
	}
}

// tryInlinePure evaluates a pure single-result function inline on a copy of
// the state, discarding the obligations it would emit; "" if it cannot.
func (f *Frame) tryInlinePure(fn *ssa.Function, args []string, reach string, st *State) (res string) {
	nob := len(f.ctx.Oblig)
	defer func() {
		f.ctx.Oblig = f.ctx.Oblig[:nob]
		if r := recover(); r != nil {
			if _, ok := r.(bailout); ok {
				res = ""
				return
			}
			panic(r)
		}
	}()
	out := f.inlineCall(fn, args, nil, reach, st.clone())
	if len(out) != 1 {
		return ""
	}
	return out[0]
}
