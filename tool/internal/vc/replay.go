package vc

import (
	"bytes"
	"encoding/json"
	"fmt"
	"os"
	"os/exec"
	"path/filepath"
	"regexp"
	"strings"
	"text/template"
	"time"
)

// tryReplay turns the solver's model of a refuted obligation into a Go test
// (from the plan's template for that obligation), injects it into the real
// package with `go test -overlay` and runs it. It returns true when the test
// reproduced the violation on the real code.
func tryReplay(o *checkOpts, plan *Plan, ob *Obligation, rec map[string]any) bool {
	if ob.Inputs == nil {
		// no candidate inputs from the bounded search: templates that do not
		// depend on inputs (scenario replays) still run.
		rec["replay_note"] = "no candidate inputs from the bounded search (verdict " + ob.Verdict + "; " + ob.ModelNote + "); scenario template run without inputs"
		ob.Inputs = map[string]string{}
	}
	var spec *ReplaySpec
	for i := range plan.Replays {
		if strings.HasPrefix(ob.Name, plan.Replays[i].Prefix) {
			spec = &plan.Replays[i]
			break
		}
	}
	if spec == nil {
		rec["replayed"] = false
		rec["replay_note"] = "no replay template for this obligation"
		return false
	}
	tpath := filepath.Join(o.verif, "props", "replay", spec.Template)
	tsrc, err := os.ReadFile(tpath)
	if err != nil {
		rec["replayed"] = false
		rec["replay_note"] = err.Error()
		return false
	}
	// header comment: "// pkg: <dir relative to repo>"
	pkgDir := ""
	for _, line := range strings.Split(string(tsrc), "\n") {
		if strings.HasPrefix(line, "// pkg:") {
			pkgDir = strings.TrimSpace(strings.TrimPrefix(line, "// pkg:"))
		}
	}
	if pkgDir == "" {
		rec["replayed"] = false
		rec["replay_note"] = "template has no '// pkg:' header"
		return false
	}
	inputs := ob.Inputs
	rec["inputs"] = inputs
	funcs := template.FuncMap{
		"bytes": func(name string) string { return goBytesLit(inputs[name]) },
		"str":   func(name string) string { return fmt.Sprintf("%q", inputs[name]) },
		"int":   func(name string) string { return intInput(inputs[name]) },
		"has":   func(name string) bool { _, ok := inputs[name]; return ok },
	}
	tm, err := template.New("t").Funcs(funcs).Parse(string(tsrc))
	if err != nil {
		rec["replayed"] = false
		rec["replay_note"] = "template: " + err.Error()
		return false
	}
	var buf bytes.Buffer
	if err := tm.Execute(&buf, map[string]any{"Obligation": ob.Name, "Inputs": inputs}); err != nil {
		rec["replayed"] = false
		rec["replay_note"] = "template: " + err.Error()
		return false
	}
	dir, err := os.MkdirTemp("", "bfvc-replay-")
	if err != nil {
		return false
	}
	defer os.RemoveAll(dir)
	testFile := filepath.Join(dir, "zz_bfvc_replay_test.go")
	os.WriteFile(testFile, buf.Bytes(), 0o644)
	ov := map[string]any{"Replace": map[string]string{filepath.Join(o.repo, pkgDir, "zz_bfvc_replay_test.go"): testFile}}
	ovb, _ := json.Marshal(ov)
	ovFile := filepath.Join(dir, "overlay.json")
	os.WriteFile(ovFile, ovb, 0o644)
	cmd := exec.Command("go", "test", "-overlay", ovFile, "-vet=off", "-count=1", "-timeout", "60s", "-run", "TestBfvcReplay", "./"+pkgDir+"/")
	cmd.Dir = o.repo
	cmd.Env = replayEnv()
	var out bytes.Buffer
	cmd.Stdout, cmd.Stderr = &out, &out
	t0 := time.Now()
	err = cmd.Run()
	rec["replay_test"] = buf.String()
	rec["replay_output"] = truncate(out.String(), 6000)
	rec["replay_s"] = round2(time.Since(t0).Seconds())
	// The template's test FAILS (or panics) when the violation reproduces.
	reproduced := err != nil && (strings.Contains(out.String(), "BFVC-REPRODUCED") || strings.Contains(out.String(), "panic:"))
	rec["replayed"] = reproduced
	return reproduced
}

func replayEnv() []string {
	env := os.Environ()
	var out []string
	for _, e := range env {
		if strings.HasPrefix(e, "GOFLAGS=") || strings.HasPrefix(e, "GOPROXY=") || strings.HasPrefix(e, "GOTOOLCHAIN=") || strings.HasPrefix(e, "PATH=") {
			continue
		}
		out = append(out, e)
	}
	// the repository's own toolchain (go 1.25 via auto-switch), offline
	return append(out, "PATH="+origPath, "GOFLAGS=-mod=mod", "GOPROXY=off", "GOSUMDB=off")
}

var reNum = regexp.MustCompile(`^\(?-? ?\d+\)?$`)

// modelInputs extracts parameter values from the model: p_<name> terms. Str
// and Slice parameters are reported with their lengths and bytes when the
// model carries them (see modelTermsFor).
func modelInputs(ob *Obligation) (map[string]string, string) {
	in := map[string]string{}
	for k, v := range ob.Model {
		in[k] = v
	}
	out := map[string]string{}
	// scalar parameters
	for k, v := range in {
		if strings.HasPrefix(k, "p_") && !strings.HasPrefix(k, "(") {
			name := paramName(k)
			out[name] = v
		}
	}
	// string/bytes: (slen p) and (sat p i) / slice: (slen_ p), (select H (selem p i))
	for k, v := range in {
		if strings.HasPrefix(k, "(slen p_") {
			name := paramName(strings.TrimSuffix(strings.TrimPrefix(k, "(slen "), ")"))
			n := atoiModel(v)
			if n > 4096 {
				return out, "model has a huge string length; not replayed"
			}
			b := make([]byte, n)
			for i := 0; i < n; i++ {
				key := fmt.Sprintf("(sat %s %d)", strings.TrimSuffix(strings.TrimPrefix(k, "(slen "), ")"), i)
				if bv, ok := in[key]; ok {
					b[i] = byte(atoiModel(bv))
				}
			}
			out[name] = string(b)
		}
	}
	return out, ""
}

func paramName(term string) string {
	t := strings.TrimPrefix(term, "p_")
	if i := strings.LastIndex(t, "@"); i >= 0 {
		t = t[:i]
	}
	return t
}

func atoiModel(v string) int {
	v = strings.NewReplacer("(", "", ")", "", " ", "").Replace(v)
	n := 0
	neg := false
	for _, c := range v {
		if c == '-' {
			neg = true
			continue
		}
		if c < '0' || c > '9' {
			break
		}
		n = n*10 + int(c-'0')
	}
	if neg {
		return -n
	}
	return n
}

func intInput(v string) string {
	return fmt.Sprint(atoiModel(v))
}

func goBytesLit(s string) string {
	var b strings.Builder
	b.WriteString("[]byte{")
	for i := 0; i < len(s); i++ {
		if i > 0 {
			b.WriteString(", ")
		}
		fmt.Fprintf(&b, "0x%02x", s[i])
	}
	b.WriteString("}")
	return b.String()
}

// cmdReplay re-runs a stored replay test against the real code.
func cmdReplay(args []string) int {
	if len(args) < 1 {
		fmt.Fprintln(os.Stderr, "usage: bfvc replay <replay.json>")
		return 2
	}
	b, err := os.ReadFile(args[0])
	if err != nil {
		fmt.Fprintln(os.Stderr, err)
		return 2
	}
	var rec map[string]any
	if err := json.Unmarshal(b, &rec); err != nil {
		fmt.Fprintln(os.Stderr, err)
		return 2
	}
	fmt.Printf("obligation: %v\nclause: %v\nverdict: %v\n", rec["obligation"], rec["clause"], rec["verdict"])
	test, _ := rec["replay_test"].(string)
	if test == "" {
		fmt.Println("no replay test recorded (no-failing-input-found); solver output:")
		fmt.Println(rec["solver_output"])
		return 1
	}
	pkgDir := ""
	for _, line := range strings.Split(test, "\n") {
		if strings.HasPrefix(line, "// pkg:") {
			pkgDir = strings.TrimSpace(strings.TrimPrefix(line, "// pkg:"))
		}
	}
	dir, _ := os.MkdirTemp("", "bfvc-replay-")
	defer os.RemoveAll(dir)
	testFile := filepath.Join(dir, "zz_bfvc_replay_test.go")
	os.WriteFile(testFile, []byte(test), 0o644)
	ov := map[string]any{"Replace": map[string]string{filepath.Join("/repo", pkgDir, "zz_bfvc_replay_test.go"): testFile}}
	ovb, _ := json.Marshal(ov)
	ovFile := filepath.Join(dir, "overlay.json")
	os.WriteFile(ovFile, ovb, 0o644)
	cmd := exec.Command("go", "test", "-overlay", ovFile, "-vet=off", "-count=1", "-timeout", "60s", "-run", "TestBfvcReplay", "-v", "./"+pkgDir+"/")
	cmd.Dir = "/repo"
	cmd.Env = replayEnv()
	cmd.Stdout, cmd.Stderr = os.Stdout, os.Stderr
	if err := cmd.Run(); err != nil {
		return 1
	}
	return 0
}
