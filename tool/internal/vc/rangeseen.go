package vc

import (
	"fmt"
	"go/types"

	"golang.org/x/tools/go/ssa"
)

// Map iteration, for completeness clauses ("every key of the map was visited").
//
// go/ssa turns `for k, v := range m` into `it = range m; loop: t = next it; if ok(t) ...`. Each
// Next yields a key of the map (instr.go: next). To say that a loop has dealt with *every* key,
// each map range carries a ghost set of the keys produced so far, kept in the state like a heap
// (so it is havocked at the loop head and constrained by the invariants like any other state):
//
//	range m         seen := {}
//	next, ok        the key was not in seen; seen := seen + {key}
//	next, !ok       every key of m is in seen          (only if the loop does not update maps of
//	                                                    this type: Go then visits each entry once)
//
// In a loop invariant `rangeseen(k)` means "the range of this loop has produced key k".

const rangeSeenPrefix = "R_seen|"

// rangeSeenHeap names the ghost set of the map range that x advances ("" for strings).
func (f *Frame) rangeSeenHeap(x *ssa.Next) string {
	if x.IsString {
		return ""
	}
	rng, ok := x.Iter.(*ssa.Range)
	if !ok {
		return ""
	}
	mt, ok := rng.X.Type().Underlying().(*types.Map)
	if !ok {
		return ""
	}
	fn := "?"
	if x.Parent() != nil {
		fn = sanitize(x.Parent().String())
	}
	return rangeSeenPrefix + f.ctx.sortOf(mt.Key()) + "|" + fn + "." + rng.Name()
}

// rangeInit: a map range starts with an empty set of produced keys.
func (f *Frame) rangeInit(x *ssa.Range, st *State) {
	mt, ok := x.X.Type().Underlying().(*types.Map)
	if !ok {
		return
	}
	for _, r := range *x.Referrers() {
		if nx, ok := r.(*ssa.Next); ok {
			hn := f.rangeSeenHeap(nx)
			if hn == "" {
				return
			}
			e := f.ctx.Fresh("rangeseen0", heapSort(hn))
			f.ctx.Fact(fmt.Sprintf("(forall ((k %s)) (! (not (select %s k)) :pattern ((select %s k))))", f.ctx.sortOf(mt.Key()), e, e))
			st.heaps[hn] = e
			return
		}
	}
}

// rangeAdvance: the effect of one Next on the ghost set (ok: the Bool "a key was produced";
// k: the key term; m: the map; dom: the current domain heap of maps of this type).
func (f *Frame) rangeAdvance(x *ssa.Next, okc, k, m, dom string, mt *types.Map, st *State) {
	hn := f.rangeSeenHeap(x)
	if hn == "" {
		return
	}
	before := f.heap(st, hn)
	after := f.ctx.Fresh("rangeseen", heapSort(hn))
	f.ctx.Fact(Implies(okc, fmt.Sprintf("(and (not (select %s %s)) (= %s (store %s %s true)))", before, k, after, before, k)))
	f.ctx.Fact(Implies("(not "+okc+")", fmt.Sprintf("(= %s %s)", after, before)))
	if !f.loopUpdatesMap(x, mt) {
		ks := f.ctx.sortOf(mt.Key())
		f.ctx.Fact(Implies("(not "+okc+")", fmt.Sprintf("(or (= %s nil) (forall ((k %s)) (! (=> (select (select %s %s) k) (select %s k)) :pattern ((select (select %s %s) k)) :pattern ((select %s k)))))", m, ks, dom, m, before, dom, m, before)))
		f.eng.note("map iteration: a range loop that does not update maps of the ranged type visits every entry exactly once (Go specification, 'For statements with range clause')")
	}
	st.heaps[hn] = after
}

// loopUpdatesMap: some loop that contains x may change the domain of maps of type mt (an update or
// delete in the loop, or a call that may): then nothing is claimed about exhaustiveness.
func (f *Frame) loopUpdatesMap(x *ssa.Next, mt *types.Map) bool {
	d, _ := mapHeaps(f.ctx, mt)
	li := f.eng.loopsOf(x.Parent())
	found := false
	for _, l := range li.ordered {
		if !l.blocks[x.Block()] {
			continue
		}
		found = true
		w := f.loopWrites(l)
		if w.All || w.Heaps[d] {
			return true
		}
	}
	return !found
}

// loopRangeSeen: the ghost set of the map range that loop l iterates (its head advances it).
func (f *Frame) loopRangeSeen(l *loop) string {
	for _, in := range l.head.Instrs {
		if nx, ok := in.(*ssa.Next); ok {
			return f.rangeSeenHeap(nx)
		}
	}
	return ""
}
