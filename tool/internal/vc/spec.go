package vc

import (
	"bufio"
	"fmt"
	"os"
	"path/filepath"
	"sort"
	"strings"
	"unicode"
)

// ---- contract AST ----

type Expr interface{ exprString() string }

type (
	EIdent struct{ Name string }
	EInt   struct{ V string }
	EStr   struct{ V string } // decoded value
	EBool  struct{ V bool }
	ENil   struct{}
	EUn    struct {
		Op string
		X  Expr
	}
	EBin struct {
		Op   string
		L, R Expr
	}
	ECall struct {
		Fun  Expr
		Args []Expr
	}
	ESel struct {
		X    Expr
		Name string
	}
	EIndex struct{ X, I Expr }
	ESlice struct{ X, Lo, Hi Expr }
	EQuant struct {
		Forall bool
		Vars   []QVar
		Body   Expr
		Trig   Expr // optional instantiation pattern
		Trigs  []Expr // further terms of a multi-pattern
	}
	EOld struct{ X Expr }
)

type QVar struct {
	Name string
	Type string
}

func (e *EIdent) exprString() string { return e.Name }
func (e *EInt) exprString() string   { return e.V }
func (e *EStr) exprString() string   { return fmt.Sprintf("%q", e.V) }
func (e *EBool) exprString() string  { return fmt.Sprint(e.V) }
func (e *ENil) exprString() string   { return "nil" }
func (e *EUn) exprString() string    { return e.Op + e.X.exprString() }
func (e *EBin) exprString() string {
	return "(" + e.L.exprString() + " " + e.Op + " " + e.R.exprString() + ")"
}
func (e *ECall) exprString() string {
	var a []string
	for _, x := range e.Args {
		a = append(a, x.exprString())
	}
	return e.Fun.exprString() + "(" + strings.Join(a, ", ") + ")"
}
func (e *ESel) exprString() string   { return e.X.exprString() + "." + e.Name }
func (e *EIndex) exprString() string { return e.X.exprString() + "[" + e.I.exprString() + "]" }
func (e *ESlice) exprString() string {
	lo, hi := "", ""
	if e.Lo != nil {
		lo = e.Lo.exprString()
	}
	if e.Hi != nil {
		hi = e.Hi.exprString()
	}
	return e.X.exprString() + "[" + lo + ".." + hi + "]"
}
func (e *EQuant) exprString() string {
	q := "exists"
	if e.Forall {
		q = "forall"
	}
	var vs []string
	for _, v := range e.Vars {
		vs = append(vs, v.Name+" "+v.Type)
	}
	return q + " " + strings.Join(vs, ", ") + " :: " + e.Body.exprString()
}
func (e *EOld) exprString() string { return "old(" + e.X.exprString() + ")" }

// ---- lexer ----

type tok struct {
	kind string // id, int, str, op, eof
	text string
}

func lex(s string) ([]tok, error) {
	var out []tok
	i := 0
	for i < len(s) {
		c := s[i]
		switch {
		case c == ' ' || c == '\t':
			i++
		case unicode.IsLetter(rune(c)) || c == '_':
			j := i
			for j < len(s) && (unicode.IsLetter(rune(s[j])) || unicode.IsDigit(rune(s[j])) || s[j] == '_') {
				j++
			}
			out = append(out, tok{"id", s[i:j]})
			i = j
		case c >= '0' && c <= '9':
			j := i
			if c == '0' && j+1 < len(s) && (s[j+1] == 'x' || s[j+1] == 'X') {
				j += 2
				for j < len(s) && strings.ContainsRune("0123456789abcdefABCDEF", rune(s[j])) {
					j++
				}
			} else {
				for j < len(s) && s[j] >= '0' && s[j] <= '9' {
					j++
				}
			}
			out = append(out, tok{"int", s[i:j]})
			i = j
		case c == '"':
			j := i + 1
			var b strings.Builder
			for j < len(s) && s[j] != '"' {
				if s[j] == '\\' && j+1 < len(s) {
					j++
					switch s[j] {
					case 'n':
						b.WriteByte('\n')
					case 't':
						b.WriteByte('\t')
					case 'x':
						if j+2 < len(s) {
							var v int
							fmt.Sscanf(s[j+1:j+3], "%02x", &v)
							b.WriteByte(byte(v))
							j += 2
						}
					default:
						b.WriteByte(s[j])
					}
				} else {
					b.WriteByte(s[j])
				}
				j++
			}
			if j >= len(s) {
				return nil, fmt.Errorf("unterminated string in %q", s)
			}
			out = append(out, tok{"str", b.String()})
			i = j + 1
		default:
			ops := []string{"<==>", "==>", "::", "..", "==", "!=", "<=", ">=", "&&", "||", "<<", ">>", "++", "&^",
				"+", "-", "*", "/", "%", "<", ">", "!", "(", ")", "[", "]", ".", ",", "&", "|", "^", ":", "#", "$"}
			matched := false
			for _, op := range ops {
				if strings.HasPrefix(s[i:], op) {
					out = append(out, tok{"op", op})
					i += len(op)
					matched = true
					break
				}
			}
			if !matched {
				return nil, fmt.Errorf("unexpected character %q in %q", c, s)
			}
		}
	}
	out = append(out, tok{"eof", ""})
	return out, nil
}

// ---- parser ----

type parser struct {
	toks []tok
	pos  int
	src  string
}

func ParseExpr(s string) (Expr, error) {
	toks, err := lex(s)
	if err != nil {
		return nil, err
	}
	p := &parser{toks: toks, src: s}
	e, err := p.parseExpr()
	if err != nil {
		return nil, err
	}
	if p.peek().kind != "eof" {
		return nil, fmt.Errorf("trailing tokens at %q in %q", p.peek().text, s)
	}
	return e, nil
}

func (p *parser) peek() tok { return p.toks[p.pos] }
func (p *parser) next() tok { t := p.toks[p.pos]; p.pos++; return t }
func (p *parser) isOp(s string) bool {
	t := p.peek()
	return t.kind == "op" && t.text == s
}
func (p *parser) isID(s string) bool {
	t := p.peek()
	return t.kind == "id" && t.text == s
}
func (p *parser) expectOp(s string) error {
	if !p.isOp(s) {
		return fmt.Errorf("expected %q, got %q in %q", s, p.peek().text, p.src)
	}
	p.pos++
	return nil
}

func (p *parser) parseExpr() (Expr, error) {
	if p.isID("forall") || p.isID("exists") {
		fa := p.next().text == "forall"
		var vars []QVar
		for {
			if p.peek().kind != "id" {
				return nil, fmt.Errorf("quantifier variable expected in %q", p.src)
			}
			name := p.next().text
			typ, err := p.parseTypeName()
			if err != nil {
				return nil, err
			}
			vars = append(vars, QVar{name, typ})
			if p.isOp(",") {
				p.pos++
				continue
			}
			break
		}
		// optional instantiation trigger: forall k int trigger m[k] :: body
		var trig Expr
		var trigs []Expr
		if p.isID("trigger") {
			p.pos++
			t, err := p.parseSum()
			if err != nil {
				return nil, err
			}
			trig = t
			for p.isOp(",") {
				p.pos++
				t2, err := p.parseSum()
				if err != nil {
					return nil, err
				}
				trigs = append(trigs, t2)
			}
		}
		if err := p.expectOp("::"); err != nil {
			return nil, err
		}
		body, err := p.parseExpr()
		if err != nil {
			return nil, err
		}
		return &EQuant{fa, vars, body, trig, trigs}, nil
	}
	return p.parseImpl()
}

func (p *parser) parseTypeName() (string, error) {
	var b strings.Builder
	for p.isOp("*") || p.isOp("[") || p.isOp("]") {
		b.WriteString(p.next().text)
	}
	if p.peek().kind != "id" {
		return "", fmt.Errorf("type name expected in %q", p.src)
	}
	b.WriteString(p.next().text)
	for p.isOp(".") {
		p.pos++
		b.WriteString("." + p.next().text)
	}
	return b.String(), nil
}

func (p *parser) parseImpl() (Expr, error) {
	l, err := p.parseOr()
	if err != nil {
		return nil, err
	}
	if p.isOp("==>") || p.isOp("<==>") {
		op := p.next().text
		var r Expr
		if p.isID("forall") || p.isID("exists") {
			r, err = p.parseExpr()
		} else {
			r, err = p.parseImpl()
		}
		if err != nil {
			return nil, err
		}
		return &EBin{op, l, r}, nil
	}
	return l, nil
}

func (p *parser) parseOr() (Expr, error) {
	l, err := p.parseAnd()
	if err != nil {
		return nil, err
	}
	for p.isOp("||") {
		p.pos++
		r, err := p.parseAnd()
		if err != nil {
			return nil, err
		}
		l = &EBin{"||", l, r}
	}
	return l, nil
}

func (p *parser) parseAnd() (Expr, error) {
	l, err := p.parseCmp()
	if err != nil {
		return nil, err
	}
	for p.isOp("&&") {
		p.pos++
		var r Expr
		if p.isID("forall") || p.isID("exists") {
			r, err = p.parseExpr()
		} else {
			r, err = p.parseCmp()
		}
		if err != nil {
			return nil, err
		}
		l = &EBin{"&&", l, r}
	}
	return l, nil
}

func (p *parser) parseCmp() (Expr, error) {
	l, err := p.parseSum()
	if err != nil {
		return nil, err
	}
	for _, op := range []string{"==", "!=", "<=", ">=", "<", ">"} {
		if p.isOp(op) {
			p.pos++
			r, err := p.parseSum()
			if err != nil {
				return nil, err
			}
			return &EBin{op, l, r}, nil
		}
	}
	if p.isID("in") {
		p.pos++
		r, err := p.parseSum()
		if err != nil {
			return nil, err
		}
		return &EBin{"in", l, r}, nil
	}
	return l, nil
}

func (p *parser) parseSum() (Expr, error) {
	l, err := p.parseTerm()
	if err != nil {
		return nil, err
	}
	for p.isOp("+") || p.isOp("-") || p.isOp("|") || p.isOp("^") || p.isOp("++") {
		op := p.next().text
		r, err := p.parseTerm()
		if err != nil {
			return nil, err
		}
		l = &EBin{op, l, r}
	}
	return l, nil
}

func (p *parser) parseTerm() (Expr, error) {
	l, err := p.parseUnary()
	if err != nil {
		return nil, err
	}
	for p.isOp("*") || p.isOp("/") || p.isOp("%") || p.isOp("&") || p.isOp("<<") || p.isOp(">>") || p.isOp("&^") {
		op := p.next().text
		r, err := p.parseUnary()
		if err != nil {
			return nil, err
		}
		l = &EBin{op, l, r}
	}
	return l, nil
}

func (p *parser) parseUnary() (Expr, error) {
	if p.isOp("!") || p.isOp("-") {
		op := p.next().text
		x, err := p.parseUnary()
		if err != nil {
			return nil, err
		}
		return &EUn{op, x}, nil
	}
	return p.parsePostfix()
}

func (p *parser) parsePostfix() (Expr, error) {
	x, err := p.parsePrimary()
	if err != nil {
		return nil, err
	}
	for {
		switch {
		case p.isOp("."):
			p.pos++
			if p.peek().kind != "id" {
				return nil, fmt.Errorf("selector expected in %q", p.src)
			}
			x = &ESel{x, p.next().text}
		case p.isOp("("):
			p.pos++
			var args []Expr
			for !p.isOp(")") {
				a, err := p.parseExpr()
				if err != nil {
					return nil, err
				}
				args = append(args, a)
				if p.isOp(",") {
					p.pos++
				} else if !p.isOp(")") {
					return nil, fmt.Errorf("expected , or ) in %q", p.src)
				}
			}
			p.pos++
			x = &ECall{x, args}
		case p.isOp("["):
			p.pos++
			var lo, hi Expr
			if p.isOp("..") {
				p.pos++
				if !p.isOp("]") {
					hi, err = p.parseExpr()
					if err != nil {
						return nil, err
					}
				}
				if err := p.expectOp("]"); err != nil {
					return nil, err
				}
				x = &ESlice{x, nil, hi}
				continue
			}
			lo, err = p.parseExpr()
			if err != nil {
				return nil, err
			}
			if p.isOp("..") {
				p.pos++
				if !p.isOp("]") {
					hi, err = p.parseExpr()
					if err != nil {
						return nil, err
					}
				}
				if err := p.expectOp("]"); err != nil {
					return nil, err
				}
				x = &ESlice{x, lo, hi}
				continue
			}
			if err := p.expectOp("]"); err != nil {
				return nil, err
			}
			x = &EIndex{x, lo}
		default:
			return x, nil
		}
	}
}

func (p *parser) parsePrimary() (Expr, error) {
	t := p.next()
	switch t.kind {
	case "int":
		return &EInt{t.text}, nil
	case "str":
		return &EStr{t.text}, nil
	case "id":
		switch t.text {
		case "true":
			return &EBool{true}, nil
		case "false":
			return &EBool{false}, nil
		case "nil":
			return &ENil{}, nil
		case "old":
			if err := p.expectOp("("); err != nil {
				return nil, err
			}
			x, err := p.parseExpr()
			if err != nil {
				return nil, err
			}
			if err := p.expectOp(")"); err != nil {
				return nil, err
			}
			return &EOld{x}, nil
		}
		return &EIdent{t.text}, nil
	case "op":
		if t.text == "(" {
			x, err := p.parseExpr()
			if err != nil {
				return nil, err
			}
			if err := p.expectOp(")"); err != nil {
				return nil, err
			}
			return x, nil
		}
	}
	return nil, fmt.Errorf("unexpected token %q in %q", t.text, p.src)
}

// ---- contract files ----

type Clause struct {
	Text string
	E    Expr
	File string
	Line int
}

type LoopSpec struct {
	Ref        string
	Invariants []Clause
	Leaves     []Clause // loop N leaves-when e
	Unroll     bool
}

type AnchoredClause struct {
	Anchor string
	Clause
}

type FuncContract struct {
	Ref         string
	Requires    []Clause
	Ensures     []Clause
	Modifies    []Clause // expressions denoting objects whose fields/elements may change
	Writes      []string // heap names (spec-only functions): which heaps may get new versions
	WritesAll   bool
	HasWrites   bool
	Inline      bool
	Pure        bool
	NilableRecv bool
	Trusted     bool // contract is assumed, body not verified (spec-only or marked)
	Loops       map[string]*LoopSpec
	Asserts     []AnchoredClause
	Fresh       []Clause // results (expressions) that are freshly allocated objects
	File        string
	Line        int
	SpecOnly    bool
	DeclPkg     string // package of the contract file declaring it ("" for .spec files)
	Props       []string // property tags for the ensures clauses, optional
	NoSweep     map[string]bool
	NoFrame     bool
	// ForwardTerms: frame facts also fire on reads of the older heap, so that facts known about an
	// element before a call/append are re-stated for the newer heap (helps existential goals).
	ForwardTerms bool
	Nilable     map[string]bool
	CS          []CSClause
}

type SpecFun struct {
	Name   string
	Params []QVar
	Ret    string
	Body   Expr
	File   string
	Pkg    string // package path of the contract file that declares it ("" for spec files)
	// Rec: recursive definition over the function-entry state ("spec fun rec f(...) T = body"):
	// heap reads in the body see the state on entry to the function under verification.
	Rec bool
}

type NamedProp struct {
	Name string
	Clause
}

// CSClause: two-state contract of a critical section of the function.
type CSClause struct {
	Mutex   string // T.mu
	Ordinal int    // 0 = every section on that mutex
	Clause
}

type Contracts struct {
	Guards  map[string]*GuardDecl
	Funcs   map[string]*FuncContract // by ref as written (package-qualified, see Bind)
	Order   []string
	SpecFns map[string]*SpecFun
	SpecOrd []string
	Axioms  []NamedProp
	Lemmas  []NamedProp
	Ifaces  map[string]*FuncContract // "pkgpath.Iface.Method"
	Files   []string
	Errors  []string
	// Scan results for evidence: every axiom/assume-like construct.
	AssumeLike []string
	// IfaceGetters: interfaces whose parameterless single-result methods are
	// stable pure getters ("pkgpath.Iface").
	IfaceGetters map[string]bool
	// IfaceGetterMethods: optional restriction to listed methods.
	IfaceGetterMethods map[string]map[string]bool
}

// isGetter reports whether method m of interface q ("pkgpath.Iface") is declared a stable getter.
func (cs *Contracts) isGetter(q, m string) bool {
	for _, k := range []string{q, strings.TrimPrefix(q, modPrefix)} {
		if cs.IfaceGetters[k] {
			if lst := cs.IfaceGetterMethods[k]; lst != nil {
				return lst[m]
			}
			return true
		}
	}
	return false
}

func NewContracts() *Contracts {
	return &Contracts{Guards: map[string]*GuardDecl{}, Funcs: map[string]*FuncContract{}, SpecFns: map[string]*SpecFun{}, Ifaces: map[string]*FuncContract{}, IfaceGetters: map[string]bool{}, IfaceGetterMethods: map[string]map[string]bool{}}
}

var clauseKeywords = map[string]bool{
	"func": true, "requires": true, "ensures": true, "modifies": true, "writes": true, "inline": true, "pure": true,
	"loop": true, "spec": true, "axiom": true, "lemma": true, "iface": true, "assert": true, "fresh": true,
	"nilable-receiver": true, "trusted": true, "ghost": true, "guards": true, "lockinv": true, "cs": true,
	"wait": true, "mode": true, "panics-when": true, "typeinv": true, "package": true, "nosweep": true, "noframe": true, "forward-terms": true, "ifacegetters": true, "nilable": true,
}

// LoadFile reads //@ lines of a Go contract file or every line of a .spec file.
// pkgPath qualifies unqualified "func" refs.
func (cs *Contracts) LoadFile(path, pkgPath string, specOnly bool) {
	f, err := os.Open(path)
	if err != nil {
		cs.Errors = append(cs.Errors, err.Error())
		return
	}
	defer f.Close()
	cs.Files = append(cs.Files, path)
	type rawLine struct {
		text string
		line int
	}
	var lines []rawLine
	sc := bufio.NewScanner(f)
	sc.Buffer(make([]byte, 1<<20), 1<<20)
	n := 0
	for sc.Scan() {
		n++
		t := strings.TrimSpace(sc.Text())
		if strings.HasSuffix(path, ".go") {
			if !strings.HasPrefix(t, "//@") {
				continue
			}
			t = strings.TrimSpace(t[3:])
		} else {
			if strings.HasPrefix(t, "#") || strings.HasPrefix(t, "//") {
				continue
			}
		}
		if t == "" {
			continue
		}
		first := t
		if i := strings.IndexAny(t, " \t"); i >= 0 {
			first = t[:i]
		}
		if !clauseKeywords[first] && len(lines) > 0 {
			lines[len(lines)-1].text += " " + t
			continue
		}
		lines = append(lines, rawLine{t, n})
	}
	var cur *FuncContract
	fail := func(line int, format string, a ...any) {
		cs.Errors = append(cs.Errors, fmt.Sprintf("%s:%d: %s", path, line, fmt.Sprintf(format, a...)))
	}
	mk := func(rest string, line int) (Clause, bool) {
		e, err := ParseExpr(rest)
		if err != nil {
			fail(line, "%v", err)
			return Clause{}, false
		}
		return Clause{Text: rest, E: e, File: path, Line: line}, true
	}
	for _, l := range lines {
		kw, rest := l.text, ""
		if i := strings.IndexAny(l.text, " \t"); i >= 0 {
			kw, rest = l.text[:i], strings.TrimSpace(l.text[i+1:])
		}
		switch kw {
		case "package":
			pkgPath = rest
		case "func":
			ref := qualifyRef(rest, pkgPath)
			cur = &FuncContract{Ref: ref, Loops: map[string]*LoopSpec{}, File: path, Line: l.line, SpecOnly: specOnly, Trusted: specOnly, NoSweep: map[string]bool{}, DeclPkg: pkgPath}
			if _, dup := cs.Funcs[ref]; dup {
				fail(l.line, "duplicate contract for %s", ref)
			}
			cs.Funcs[ref] = cur
			cs.Order = append(cs.Order, ref)
		case "ifacegetters":
			// ifacegetters I            : every parameterless single-result method of I
			// ifacegetters I:M1,M2,...  : only the listed methods
			for _, n := range strings.Fields(rest) {
				name, list := n, ""
				if i := strings.Index(n, ":"); i >= 0 {
					name, list = n[:i], n[i+1:]
				}
				q := qualifyRef(name, pkgPath)
				cs.IfaceGetters[q] = true
				if list != "" {
					if cs.IfaceGetterMethods[q] == nil {
						cs.IfaceGetterMethods[q] = map[string]bool{}
					}
					for _, m := range strings.Split(list, ",") {
						cs.IfaceGetterMethods[q][m] = true
					}
				}
				cs.AssumeLike = append(cs.AssumeLike, "ifacegetters "+n+" (these methods are stable pure getters)")
			}
		case "guards", "lockinv":
			// guards T.mu: f1, f2      lockinv T.mu: expr (self = the T object)
			i := strings.Index(rest, ":")
			if i < 0 {
				fail(l.line, "%s needs 'T.mu: ...'", kw)
				continue
			}
			tm := strings.TrimSpace(rest[:i])
			j := strings.LastIndex(tm, ".")
			if j < 0 {
				fail(l.line, "%s needs 'T.mu'", kw)
				continue
			}
			key := pkgPath + "." + tm
			typ, mu := tm[:j], tm[j+1:]
			if strings.HasPrefix(tm, "local ") {
				// guards local F.mu: a, b — a mutex that is a local variable mu of function F,
				// protecting the local variables a, b (shared with F's closures)
				fn := strings.TrimSpace(tm[len("local "):j])
				key = pkgPath + "." + fn + "#" + mu
				typ = "local"
			}
			gd := cs.Guards[key]
			if gd == nil {
				gd = &GuardDecl{Key: key, Type: typ, Mu: mu, Pkg: pkgPath}
				cs.Guards[key] = gd
			}
			if kw == "guards" {
				for _, fl := range strings.Split(rest[i+1:], ",") {
					if fl = strings.TrimSpace(fl); fl != "" {
						gd.Fields = append(gd.Fields, fl)
					}
				}
			} else {
				if c, ok := mk(strings.TrimSpace(rest[i+1:]), l.line); ok {
					gd.Inv = append(gd.Inv, c)
				}
			}
		case "ghost":
			// ghost heap <name> <keysort> <valsort>
			fs := strings.Fields(rest)
			if len(fs) != 4 || fs[0] != "heap" {
				fail(l.line, "ghost: expected 'ghost heap <name> <keysort> <valsort>'")
				continue
			}
			ks, ok1 := specSort(nil, fs[2])
			vs, ok2 := specSort(nil, fs[3])
			if !ok1 || !ok2 {
				fail(l.line, "ghost heap %s: unknown sort", fs[1])
				continue
			}
			ghostHeaps[fs[1]] = [2]string{ks, vs}
		case "iface":
			// iface pkg.Iface.Method pure | ensures e | requires e
			parts := strings.SplitN(rest, " ", 3)
			if len(parts) < 2 {
				fail(l.line, "bad iface clause")
				continue
			}
			name := qualifyRef(parts[0], pkgPath)
			if pkgPath != "" && !strings.Contains(parts[0], "/") && strings.Count(parts[0], ".") == 1 {
				name = pkgPath + "." + parts[0] // Iface.Method of this package
			}
			ic := cs.Ifaces[name]
			if ic == nil {
				ic = &FuncContract{Ref: name, Loops: map[string]*LoopSpec{}, File: path, Line: l.line, SpecOnly: true, Trusted: true}
				cs.Ifaces[name] = ic
			}
			arg := ""
			if len(parts) == 3 {
				arg = parts[2]
			}
			switch parts[1] {
			case "pure":
				ic.Pure = true
			case "modifies":
				for _, part := range splitTop(arg) {
					if c, ok := mk(part, l.line); ok {
						ic.Modifies = append(ic.Modifies, c)
					}
				}
			case "ensures":
				if c, ok := mk(arg, l.line); ok {
					ic.Ensures = append(ic.Ensures, c)
				}
			case "requires":
				if c, ok := mk(arg, l.line); ok {
					ic.Requires = append(ic.Requires, c)
				}
			case "writes":
				ic.HasWrites = true
				for _, w := range strings.Fields(strings.ReplaceAll(arg, ",", " ")) {
					if w == "none" {
						continue
					}
					if w == "all" {
						ic.WritesAll = true
						continue
					}
					ic.Writes = append(ic.Writes, w)
				}
			default:
				fail(l.line, "bad iface clause kind %q", parts[1])
			}
			cs.AssumeLike = append(cs.AssumeLike, "iface "+rest)
		case "spec":
			// spec fun name(params) ret [= body]
			sf, err := parseSpecFun(rest)
			if err != nil {
				fail(l.line, "%v", err)
				continue
			}
			sf.File = path
			sf.Pkg = pkgPath
			if _, dup := cs.SpecFns[sf.Name]; dup {
				fail(l.line, "duplicate spec fun %s", sf.Name)
			}
			cs.SpecFns[sf.Name] = sf
			cs.SpecOrd = append(cs.SpecOrd, sf.Name)
		case "axiom", "lemma":
			i := strings.Index(rest, ":")
			if i < 0 {
				fail(l.line, "axiom/lemma needs a name and ':'")
				continue
			}
			c, ok := mk(strings.TrimSpace(rest[i+1:]), l.line)
			if !ok {
				continue
			}
			np := NamedProp{strings.TrimSpace(rest[:i]), c}
			if kw == "axiom" {
				cs.Axioms = append(cs.Axioms, np)
				cs.AssumeLike = append(cs.AssumeLike, "axiom "+np.Name+": "+c.Text)
			} else {
				cs.Lemmas = append(cs.Lemmas, np)
			}
		default:
			if cur == nil {
				fail(l.line, "clause %q outside a func block", kw)
				continue
			}
			switch kw {
			case "requires":
				if c, ok := mk(rest, l.line); ok {
					cur.Requires = append(cur.Requires, c)
				}
			case "ensures":
				if c, ok := mk(rest, l.line); ok {
					cur.Ensures = append(cur.Ensures, c)
				}
			case "modifies":
				for _, part := range splitTop(rest) {
					if c, ok := mk(part, l.line); ok {
						cur.Modifies = append(cur.Modifies, c)
					}
				}
			case "fresh":
				for _, part := range splitTop(rest) {
					if c, ok := mk(part, l.line); ok {
						cur.Fresh = append(cur.Fresh, c)
					}
				}
			case "writes":
				cur.HasWrites = true
				for _, w := range strings.Fields(strings.ReplaceAll(rest, ",", " ")) {
					if w == "none" {
						continue
					}
					if w == "all" {
						cur.WritesAll = true
						continue
					}
					cur.Writes = append(cur.Writes, w)
				}
			case "inline":
				cur.Inline = true
			case "pure":
				cur.Pure = true
			case "trusted":
				cur.Trusted = true
				cs.AssumeLike = append(cs.AssumeLike, "trusted "+cur.Ref+" "+rest)
			case "nilable-receiver":
				cur.NilableRecv = true
			case "noframe":
				cur.NoFrame = true
			case "forward-terms":
				cur.ForwardTerms = true
			case "nilable":
				if cur.Nilable == nil {
					cur.Nilable = map[string]bool{}
				}
				for _, w := range strings.Fields(strings.ReplaceAll(rest, ",", " ")) {
					cur.Nilable[w] = true
				}
			case "nosweep":
				for _, w := range strings.Fields(rest) {
					cur.NoSweep[w] = true
				}
				cs.AssumeLike = append(cs.AssumeLike, "nosweep "+cur.Ref+" "+rest)
			case "cs":
				// cs T.mu[#k] ensures e   (old(...) = state right after Lock)
				parts := strings.SplitN(rest, " ", 3)
				if len(parts) < 3 || parts[1] != "ensures" {
					fail(l.line, "cs: expected 'cs T.mu[#k] ensures e'")
					continue
				}
				mu, ord := parts[0], 0
				if i := strings.Index(mu, "#"); i >= 0 {
					if mu[i+1:] == "defer" {
						ord = -1 // sections executed by deferred closures run inline at return
					} else {
						fmt.Sscanf(mu[i+1:], "%d", &ord)
					}
					mu = mu[:i]
				}
				if c, ok := mk(parts[2], l.line); ok {
					cur.CS = append(cur.CS, CSClause{Mutex: mu, Ordinal: ord, Clause: c})
				}
			case "loop":
				// loop <ref> invariant e | loop <ref> unroll
				parts := strings.SplitN(rest, " ", 3)
				if len(parts) < 2 {
					fail(l.line, "bad loop clause")
					continue
				}
				ls := cur.Loops[parts[0]]
				if ls == nil {
					ls = &LoopSpec{Ref: parts[0]}
					cur.Loops[parts[0]] = ls
				}
				switch parts[1] {
				case "invariant":
					if len(parts) < 3 {
						fail(l.line, "invariant needs an expression")
						continue
					}
					if c, ok := mk(parts[2], l.line); ok {
						ls.Invariants = append(ls.Invariants, c)
					}
				case "leaves-when":
					// holds on every edge that leaves the loop for the code after it (break or the
					// loop condition turning false; returns are not such edges)
					if len(parts) < 3 {
						fail(l.line, "leaves-when needs an expression")
						continue
					}
					if c, ok := mk(parts[2], l.line); ok {
						ls.Leaves = append(ls.Leaves, c)
					}
				case "unroll":
					ls.Unroll = true
				default:
					fail(l.line, "bad loop clause kind %q", parts[1])
				}
			case "assert":
				// assert at <anchor>: e
				r := strings.TrimPrefix(rest, "at ")
				i := strings.Index(r, ":")
				if i < 0 {
					fail(l.line, "assert needs 'at <anchor>: e'")
					continue
				}
				if c, ok := mk(strings.TrimSpace(r[i+1:]), l.line); ok {
					cur.Asserts = append(cur.Asserts, AnchoredClause{strings.TrimSpace(r[:i]), c})
				}
			default:
				fail(l.line, "unsupported clause %q", kw)
			}
		}
	}
}

func splitTop(s string) []string {
	var out []string
	d := 0
	start := 0
	for i, r := range s {
		switch r {
		case '(', '[':
			d++
		case ')', ']':
			d--
		case ',':
			if d == 0 {
				out = append(out, strings.TrimSpace(s[start:i]))
				start = i + 1
			}
		}
	}
	if t := strings.TrimSpace(s[start:]); t != "" {
		out = append(out, t)
	}
	return out
}

const modPrefix = "github.com/aperturerobotics/bifrost/"

// qualifyRef turns "F", "(*T).M", "(T).M" into package-qualified names, and
// leaves refs that already carry a package path alone. Paths relative to the
// module ("peer.(*T).M") are expanded.
func qualifyRef(ref, pkgPath string) string {
	ref = strings.TrimSpace(ref)
	if pkgPath != "" && (strings.HasPrefix(ref, "(") || !strings.Contains(ref, ".")) {
		return pkgPath + "." + ref
	}
	return ref
}

func parseSpecFun(rest string) (*SpecFun, error) {
	rest = strings.TrimSpace(strings.TrimPrefix(rest, "fun"))
	rec := false
	if strings.HasPrefix(rest, "rec ") {
		rec = true
		rest = strings.TrimSpace(strings.TrimPrefix(rest, "rec "))
	}
	i := strings.Index(rest, "(")
	if i < 0 {
		return nil, fmt.Errorf("spec fun: missing (")
	}
	name := strings.TrimSpace(rest[:i])
	j := strings.Index(rest, ")")
	if j < i {
		return nil, fmt.Errorf("spec fun: missing )")
	}
	sf := &SpecFun{Name: name, Rec: rec}
	for _, p := range splitTop(rest[i+1 : j]) {
		fs := strings.Fields(p)
		if len(fs) != 2 {
			return nil, fmt.Errorf("spec fun %s: bad parameter %q", name, p)
		}
		sf.Params = append(sf.Params, QVar{fs[0], fs[1]})
	}
	tail := strings.TrimSpace(rest[j+1:])
	if k := strings.Index(tail, "="); k >= 0 {
		sf.Ret = strings.TrimSpace(tail[:k])
		e, err := ParseExpr(strings.TrimSpace(tail[k+1:]))
		if err != nil {
			return nil, err
		}
		sf.Body = e
	} else {
		sf.Ret = tail
	}
	if sf.Ret == "" {
		return nil, fmt.Errorf("spec fun %s: missing result sort", name)
	}
	if sf.Rec && sf.Body == nil {
		return nil, fmt.Errorf("spec fun rec %s: needs a body", name)
	}
	return sf, nil
}

// LoadAll reads every contracts_verif.go below repo for the given package
// dirs and every *.spec under specDir.
func (cs *Contracts) LoadAll(prog *Program, specDir string) {
	var paths []string
	for path := range prog.AllPkgs {
		paths = append(paths, path)
	}
	sort.Strings(paths)
	for _, path := range paths {
		pp := prog.AllPkgs[path]
		if !strings.HasPrefix(path, strings.TrimSuffix(modPrefix, "/")) {
			continue
		}
		for _, f := range pp.GoFiles {
			if filepath.Base(f) == "contracts_verif.go" {
				cs.LoadFile(f, path, false)
			}
		}
	}
	specs, _ := filepath.Glob(filepath.Join(specDir, "*.spec"))
	sort.Strings(specs)
	for _, s := range specs {
		cs.LoadFile(s, "", true)
	}
}
