package vc

import (
	"fmt"
	"go/types"
	"strings"

	"golang.org/x/tools/go/ssa"
)

const maxInlineDepth = 6

// specialCallee names callees with built-in semantics.
func specialCallee(fn *ssa.Function) string {
	n := FuncName(fn)
	switch n {
	case "(*sync.Mutex).Lock", "sync.(*Mutex).Lock":
		return "lock"
	case "sync.(*Mutex).Unlock":
		return "unlock"
	case "sync.(*RWMutex).Lock", "sync.(*RWMutex).RLock":
		return "lock"
	case "sync.(*RWMutex).Unlock", "sync.(*RWMutex).RUnlock":
		return "unlock"
	}
	return ""
}

// setResult binds the results of a call instruction.
func (f *Frame) setResult(instr *ssa.Call, res []string) {
	if instr == nil {
		return
	}
	sig := instr.Common().Signature()
	switch sig.Results().Len() {
	case 0:
		return
	case 1:
		f.vals[instr] = res[0]
	default:
		f.tuples[instr] = res
	}
}

func (f *Frame) havocResults(sig *types.Signature, st *State, hint string) []string {
	var res []string
	for i := 0; i < sig.Results().Len(); i++ {
		res = append(res, f.havocOf(sig.Results().At(i).Type(), fmt.Sprintf("%s_r%d", hint, i), st))
	}
	return res
}

func (f *Frame) execCall(instr *ssa.Call, cc *ssa.CallCommon, reach string, st *State) {
	pos := cc.Pos()
	if b, ok := cc.Value.(*ssa.Builtin); ok {
		f.execBuiltin(instr, b, cc, reach, st)
		return
	}
	var args []string
	for _, a := range cc.Args {
		args = append(args, f.val(a))
	}
	sig := cc.Signature()
	if cc.IsInvoke() {
		recv := f.val(cc.Value)
		f.oblig("nil-deref", pos, f.srcTextOr(pos, "invoke "+cc.Method.Name()), reach, fmt.Sprintf("(not (= (ityp %s) 0))", recv))
		f.callSiteAsserts(instr, cc, "invoke."+cc.Method.Name(), append([]string{recv}, args...), reach, st)
		ic := f.eng.ifaceContract(cc)
		hint := "inv_" + cc.Method.Name()
		if ic == nil {
			f.eng.note("interface call without contract havocs everything: " + cc.Method.FullName())
			ns := f.havocState(st, &WriteSet{All: true}, "invoke")
			*st = *ns
			f.callFrame(pos, "invoke "+cc.Method.Name()+" (no contract)", &WriteSet{All: true}, nil, true, reach)
			f.setResult(instr, f.havocResults(sig, st, hint))
			return
		}
		f.eng.note("assumed contract (interface method): " + ic.Ref)
		if ic.Pure {
			res := f.pureMethodResults(cc.Method, sig, recv, args)
			for i, r := range res {
				f.ctx.Fact(f.ctx.typeFacts(r, sig.Results().At(i).Type(), st.alloc))
			}
			if len(res) == 1 && len(args) == 0 && isByteSlice(sig.Results().At(0).Type()) {
				// byte slices returned by stable getters have stable contents
				f.eng.note("byte slices returned by stable pure getters (ifacegetters) have stable contents")
				f.ctx.Fact(Implies(reach, fmt.Sprintf("(= (content %s %s) %s)", f.heap(st, "H_uint8"), res[0], f.getterBytes(cc.Method, recv))))
			}
			if len(ic.Ensures) > 0 {
				// a pure getter may still state facts about its (stable) result
				env2 := f.calleeEnv(ic, nil, sig, append([]string{recv}, args...), st, st)
				env2.bindResults(sig, res)
				for _, e := range ic.Ensures {
					g, err := env2.evalBool(e.E)
					if err != nil {
						f.bail("contract %s ensures %q: %v", ic.Ref, e.Text, err)
					}
					f.ctx.Fact(Implies(reach, g))
				}
			}
			f.setResult(instr, res)
			return
		}
		f.applyContract(instr, ic, nil, sig, append([]string{recv}, args...), reach, st, pos, cc.Method.Name())
		return
	}
	callee := cc.StaticCallee()
	if callee == nil {
		// call through a function value (anchor for asserts: `call funcvalue`)
		fv := f.val(cc.Value)
		f.callSiteAsserts(instr, cc, "funcvalue", args, reach, st)
		if nt, ok := cc.Value.Type().(*types.Named); ok && nt.Obj().Pkg() != nil && nt.Obj().Pkg().Path() == "context" && nt.Obj().Name() == "CancelFunc" {
			// cancelling a context does not touch modelled state
			f.eng.note("calls of context.CancelFunc values have no effect on modelled state")
			return
		}
		if owner, isBc := f.top.bcastOwner[fv]; isBc {
			// broadcast(): counted in the ghost bcastCalls[owner]
			h := f.heap(st, "G_bcastCalls")
			nh := f.ctx.Fresh("bcastCalls", heapSort("G_bcastCalls"))
			f.ctx.Fact(fmt.Sprintf("(= %s (store %s %s (+ (select %s %s) 1)))", nh, h, owner, h, owner))
			st.heaps["G_bcastCalls"] = nh
		}
		if f.top.noopFuncs[fv] {
			// broadcast() / getWaitCh() inside a HoldLock callback: no effect on modelled state
			f.setResult(instr, f.havocResults(sig, st, "bcast"))
			return
		}
		if cv, ok := f.top.closures[fv]; ok && f.depth < maxInlineDepth {
			res := f.inlineCall(cv.fn, args, cv.bindings, reach, st)
			f.setResult(instr, res)
			return
		}
		f.eng.note("call through function value havocs everything")
		ns := f.havocState(st, &WriteSet{All: true}, "dyncall")
		*st = *ns
		f.callFrame(pos, "call through function value", &WriteSet{All: true}, nil, true, reach)
		f.setResult(instr, f.havocResults(sig, st, "dyn"))
		return
	}
	var bindings []string
	if mc, ok := cc.Value.(*ssa.MakeClosure); ok {
		for _, b := range mc.Bindings {
			bindings = append(bindings, f.val(b))
		}
	}
	switch specialCallee(callee) {
	case "lock":
		f.lockOp(cc.Args[0], true, reach, st, pos)
		return
	case "unlock":
		f.lockOp(cc.Args[0], false, reach, st, pos)
		return
	}
	if n := FuncName(callee); n == "github.com/aperturerobotics/util/broadcast.(*Broadcast).HoldLock" ||
		n == "github.com/aperturerobotics/util/broadcast.(*Broadcast).HoldLockMaybeAsync" {
		// HoldLockMaybeAsync runs the callback exactly once, possibly later, under the
		// lock: the section is verified from an arbitrary lock-time state either way.
		f.eng.note("Broadcast.HoldLock(cb) runs cb exactly once, synchronously, with the lock held (assumed contract of util/broadcast)")
		if f.holdLock(instr, cc, reach, st) {
			return
		}
	}
	if FuncName(callee) == "sync.(*Once).Do" && len(cc.Args) == 2 && f.depth < maxInlineDepth {
		// once.Do(f): f runs here (the first call) or not at all (a later call)
		var fn *ssa.Function
		var fbind []string
		switch cb := cc.Args[1].(type) {
		case *ssa.MakeClosure:
			fn = cb.Fn.(*ssa.Function)
			for _, b := range cb.Bindings {
				fbind = append(fbind, f.val(b))
			}
		case *ssa.Function:
			fn = cb
		}
		if fn != nil && fn.Blocks != nil {
			f.eng.note("sync.Once.Do(f) runs f in this call or not at all")
			first := f.ctx.Fresh("once_first", "Bool")
			before := st.clone()
			f.inlineCall(fn, nil, fbind, And(reach, first), st)
			merged := f.mergeStates([]inEdge{{nil, And(reach, first), st}, {nil, And(reach, Not(first)), before}})
			*st = *merged
			return
		}
	}
	f.callSiteAsserts(instr, cc, FuncName(callee), args, reach, st)
	fc := f.eng.contractFor(callee)
	hint := callee.Name()
	if fc != nil && !fc.Inline {
		if fc.SpecOnly {
			f.eng.note("assumed contract (dependency): " + fc.Ref)
		} else if fc.Trusted {
			f.eng.note("assumed contract (trusted, not verified): " + fc.Ref)
		} else {
			f.top.usedContracts[FuncName(callee)] = true
		}
		f.calleeBindings = bindings
		f.applyContract(instr, fc, callee, sig, args, reach, st, pos, hint)
		f.calleeBindings = nil
		return
	}
	if (fc != nil && fc.Inline || f.eng.autoInline(callee)) && f.depth < maxInlineDepth && callee.Blocks != nil {
		res := f.inlineCall(callee, args, bindings, reach, st)
		f.setResult(instr, res)
		return
	}
	// no contract: havoc by inferred write set
	w := f.eng.writesOf(f.ctx, callee)
	f.eng.note("call without contract: results arbitrary, written heaps havocked: " + shortFuncName(FuncName(callee)))
	before := st.clone()
	f.havocCallee = callee
	ns := f.havocState(st, w, "call")
	f.havocCallee = nil
	*st = *ns
	if (w.All || len(w.Heaps) > 0) && f.eng.freshOnly(f.ctx, callee) {
		// the callee writes only objects it allocates itself
		f.eng.note("call without contract, writes only objects it allocates (syntactic check): " + shortFuncName(FuncName(callee)))
		f.frameFacts(before, st, reach, nil)
	} else {
		f.callFrame(pos, "call "+shortFuncName(FuncName(callee))+" (no contract)", w, nil, true, reach)
	}
	f.setResult(instr, f.havocResults(sig, st, hint))
}

// pureMethodResults models a pure interface method as an uninterpreted
// function of the receiver (and arguments), keyed by method name and signature.
func (f *Frame) pureMethodResults(m *types.Func, sig *types.Signature, recv string, args []string) []string {
	var res []string
	for i := 0; i < sig.Results().Len(); i++ {
		rs := f.ctx.sortOf(sig.Results().At(i).Type())
		var ps []string
		ps = append(ps, "Iface")
		for j := 0; j < sig.Params().Len(); j++ {
			ps = append(ps, f.ctx.sortOf(sig.Params().At(j).Type()))
		}
		name := fmt.Sprintf("im_%s_%d_%s", m.Name(), i, sanitize(strings.Join(ps[1:], "_")+"_"+rs))
		f.ctx.DeclareOnce(name, fmt.Sprintf("(declare-fun %s (%s) %s)", name, strings.Join(ps, " "), rs))
		res = append(res, "("+name+" "+strings.Join(append([]string{recv}, args...), " ")+")")
	}
	return res
}

// getterBytes: the stable contents of the byte slice returned by pure getter m on recv.
func (f *Frame) getterBytes(m *types.Func, recv string) string {
	name := "imc_" + m.Name()
	f.ctx.DeclareOnce(name, fmt.Sprintf("(declare-fun %s (Iface) Str)", name))
	return "(" + name + " " + recv + ")"
}

// autoInline: generated nil-safe protobuf getters and tiny leaf accessors.
func (e *Engine) autoInline(fn *ssa.Function) bool {
	if fn.Blocks == nil {
		return false
	}
	pos := fn.Pos()
	if !pos.IsValid() {
		return false
	}
	file := e.Prog.Fset.Position(pos).Filename
	if strings.HasSuffix(file, ".pb.go") && strings.HasPrefix(fn.Name(), "Get") && len(fn.Blocks) <= 6 {
		return true
	}
	// small side-effect-free leaf functions of the repository (field getters and the like)
	name := FuncName(fn)
	if v, ok := e.inlineMemo[name]; ok {
		return v
	}
	e.inlineMemo[name] = false // recursion guard
	if fn.Pkg == nil || !strings.HasPrefix(fn.Pkg.Pkg.Path(), strings.TrimSuffix(modPrefix, "/")) {
		return false
	}
	if len(fn.Blocks) > 8 || len(e.loopsOf(fn).heads) > 0 {
		return false
	}
	n := 0
	for _, b := range fn.Blocks {
		for _, in := range b.Instrs {
			n++
			switch x := in.(type) {
			case *ssa.Store, *ssa.MapUpdate, *ssa.Go, *ssa.Defer, *ssa.Select, *ssa.Send, *ssa.Panic, *ssa.MakeClosure, *ssa.RunDefers:
				return false
			case *ssa.Call:
				cc := x.Common()
				if b, ok := cc.Value.(*ssa.Builtin); ok {
					if b.Name() == "len" || b.Name() == "cap" {
						continue
					}
					return false
				}
				callee := cc.StaticCallee()
				if callee == nil || cc.IsInvoke() {
					return false
				}
				if fc := e.contractFor(callee); fc != nil && !fc.Inline {
					return false
				}
				if !e.autoInline(callee) {
					return false
				}
			}
		}
	}
	if n > 40 {
		return false
	}
	e.inlineMemo[name] = true
	return true
}

func (f *Frame) inlineCall(callee *ssa.Function, args, bindings []string, reach string, st *State) []string {
	sub := &Frame{eng: f.eng, ctx: f.ctx, fn: callee, top: f.top, parent: f, depth: f.depth + 1,
		vals: map[ssa.Value]string{}, tuples: map[ssa.Value][]string{}, reach: map[*ssa.BasicBlock]string{},
		endSt: map[*ssa.BasicBlock]*State{}, fromDefer: f.fromDefer || f.runningDefers}
	for p := f; p != nil; p = p.parent {
		if p.fn == callee {
			f.bail("recursive inline of %s", callee.Name())
		}
	}
	sub.run(reach, st, args, bindings)
	// merge returns
	sig := callee.Signature
	if len(sub.rets) == 0 {
		// never returns (panics): results arbitrary under false reach
		return f.havocResults(sig, st, callee.Name())
	}
	var edges []inEdge
	var retReach []string
	for _, r := range sub.rets {
		edges = append(edges, inEdge{nil, r.reach, r.st})
		retReach = append(retReach, r.reach)
	}
	// code after the call runs only if the callee returned through one of its returns
	f.ctx.Fact(Implies(reach, Or(retReach...)))
	merged := f.mergeStates(edges)
	*st = *merged
	var res []string
	for i := 0; i < sig.Results().Len(); i++ {
		if len(sub.rets) == 1 {
			res = append(res, sub.rets[0].vals[i])
			continue
		}
		n := f.ctx.Fresh(fmt.Sprintf("%s_ret%d", callee.Name(), i), f.ctx.sortOf(sig.Results().At(i).Type()))
		for _, r := range sub.rets {
			f.ctx.Fact(Implies(r.reach, Eq(n, r.vals[i])))
		}
		res = append(res, n)
	}
	return res
}

// applyContract: assert requires, havoc per writes/modifies, assume ensures.
func (f *Frame) applyContract(instr *ssa.Call, fc *FuncContract, callee *ssa.Function, sig *types.Signature, args []string, reach string, st *State, pos tokenPos, hint string) {
	before := st.clone()
	env := f.calleeEnv(fc, callee, sig, args, before, before)
	cpos := pos
	for _, r := range fc.Requires {
		g, err := env.evalGoal(r.E)
		if err != nil {
			f.bail("contract %s requires %q: %v", fc.Ref, r.Text, err)
		}
		f.oblig("pre", cpos, fmt.Sprintf("%s requires %s", shortFuncName(fc.Ref), r.Text), reach, g)
	}
	// write set
	var w *WriteSet
	if callee != nil {
		w = f.eng.writesOf(f.ctx, callee)
	} else {
		w = &WriteSet{All: fc.WritesAll, Heaps: map[string]bool{}}
		for _, h := range fc.Writes {
			w.Heaps[h] = true
		}
	}
	// modified objects
	var modObjs []string
	for _, m := range fc.Modifies {
		v, err := env.eval(m.E)
		if err != nil {
			f.bail("contract %s modifies %q: %v", fc.Ref, m.Text, err)
		}
		switch v.sort {
		case "Ptr":
			modObjs = append(modObjs, "(pobj "+v.t+")")
		case "Slice":
			modObjs = append(modObjs, "slice:"+v.t)
		default:
			f.bail("contract %s modifies %q: not a pointer or slice", fc.Ref, m.Text)
		}
	}
	f.havocCallee = callee
	ns := f.havocState(st, w, "call")
	f.havocCallee = nil
	*st = *ns
	if fc.NoFrame {
		f.callFrame(cpos, "call "+shortFuncName(fc.Ref)+" (no frame)", w, nil, true, reach)
	} else {
		f.frameFacts(before, st, reach, modObjs)
		f.callFrame(cpos, "call "+shortFuncName(fc.Ref), w, modObjs, false, reach)
	}
	res := f.havocResults(sig, st, hint)
	env2 := f.calleeEnv(fc, callee, sig, args, st, before)
	env2.bindResults(sig, res)
	for _, fr := range fc.Fresh {
		v, err := env2.eval(fr.E)
		if err != nil {
			f.bail("contract %s fresh %q: %v", fc.Ref, fr.Text, err)
		}
		switch v.sort {
		case "Ptr":
			f.ctx.Fact(Implies(reach, fmt.Sprintf("(or (= %s nil) (>= (pobj %s) %s))", v.t, v.t, before.alloc)))
		case "Slice":
			f.ctx.Fact(Implies(reach, fmt.Sprintf("(or (= (sbase %s) nil) (>= (pobj (sbase %s)) %s))", v.t, v.t, before.alloc)))
		}
	}
	for _, e := range fc.Ensures {
		g, err := env2.evalBool(e.E)
		if err != nil {
			f.bail("contract %s ensures %q: %v", fc.Ref, e.Text, err)
		}
		f.ctx.Fact(Implies(reach, g))
	}
	f.setResult(instr, res)
}

func instrPos(instr *ssa.Call) (p tokenPos) {
	if instr == nil {
		return 0
	}
	return instr.Pos()
}

// callFrame: in a framed function every callee write must hit objects that are
// fresh since function entry or listed in the caller's modifies clause.
func (f *Frame) callFrame(pos tokenPos, what string, w *WriteSet, modObjs []string, unknown bool, reach string) {
	if !f.top.framed {
		return
	}
	if !w.All && len(w.Heaps) == 0 {
		return
	}
	if unknown {
		f.oblig("frame", pos, what, reach, "false")
		return
	}
	for _, m := range modObjs {
		if strings.HasPrefix(m, "slice:") {
			s := m[6:]
			f.storeFrameAt(pos, what, "(pobj (sbase "+s+"))", "", s, And(reach, "(> (slen_ "+s+") 0)"))
			continue
		}
		f.storeFrame(pos, what, m, reach)
	}
}

// ---- builtins ----

func (f *Frame) execBuiltin(instr *ssa.Call, b *ssa.Builtin, cc *ssa.CallCommon, reach string, st *State) {
	arg := func(i int) string { return f.val(cc.Args[i]) }
	switch b.Name() {
	case "len", "cap":
		a := arg(0)
		switch u := cc.Args[0].Type().Underlying().(type) {
		case *types.Slice:
			if b.Name() == "len" {
				f.define(instr, fmt.Sprintf("(slen_ %s)", a))
			} else {
				f.define(instr, fmt.Sprintf("(scap %s)", a))
			}
		case *types.Basic:
			f.define(instr, fmt.Sprintf("(slen %s)", a))
		case *types.Map:
			f.mapLenFacts(st, a, u)
			f.define(instr, fmt.Sprintf("(ite (= %s nil) 0 (select %s %s))", a, f.heap(st, mapLenHeap(f.ctx, u)), a))
		case *types.Array:
			f.define(instr, fmt.Sprint(u.Len()))
		case *types.Pointer:
			f.define(instr, fmt.Sprint(u.Elem().Underlying().(*types.Array).Len()))
		case *types.Chan:
			n := f.havocOf(types.Typ[types.Int], "chanlen", st)
			f.ctx.Fact(fmt.Sprintf("(>= %s 0)", n))
			f.vals[instr] = n
		default:
			f.bail("len of %s", cc.Args[0].Type())
		}
	case "append":
		f.appendOp(instr, cc, reach, st)
	case "copy":
		f.copyOp(instr, cc, reach, st)
	case "delete":
		m, k := arg(0), arg(1)
		mt := cc.Args[0].Type().Underlying().(*types.Map)
		f.storeFrame(cc.Pos(), f.srcTextOr(cc.Pos(), "delete"), "(pobj "+m+")", And(reach, Not(Eq(m, "nil"))))
		f.mapStore(st, m, k, "", mt, false)
	case "panic":
		f.oblig("explicit-panic", cc.Pos(), f.srcTextOr(cc.Pos(), "panic"), reach, "false")
	case "recover":
		if instr != nil {
			f.vals[instr] = f.havocOf(instr.Type(), "recover", st)
		}
	case "min", "max":
		op := "<="
		if b.Name() == "max" {
			op = ">="
		}
		r := arg(0)
		for i := 1; i < len(cc.Args); i++ {
			r = fmt.Sprintf("(ite (%s %s %s) %s %s)", op, r, arg(i), r, arg(i))
		}
		f.define(instr, r)
	case "print", "println":
	case "close":
		// with a declared `ghost heap chanClosed ptr bool`, closing a channel is recorded
		if _, ok := ghostHeaps["chanClosed"]; ok {
			h := f.heap(st, "G_chanClosed")
			nh := f.ctx.Fresh("chanClosed", heapSort("G_chanClosed"))
			f.ctx.Fact(fmt.Sprintf("(= %s (store %s %s true))", nh, h, arg(0)))
			st.heaps["G_chanClosed"] = nh
		}
	default:
		f.bail("unsupported builtin %s", b.Name())
	}
}

func (f *Frame) appendOp(instr *ssa.Call, cc *ssa.CallCommon, reach string, st *State) {
	s := f.val(cc.Args[0])
	et := cc.Args[0].Type().Underlying().(*types.Slice).Elem()
	var tlen string
	var t string
	tIsStr := false
	if len(cc.Args) > 1 {
		t = f.val(cc.Args[1])
		if isString(cc.Args[1].Type()) {
			tIsStr = true
			tlen = fmt.Sprintf("(slen %s)", t)
		} else {
			tlen = fmt.Sprintf("(slen_ %s)", t)
		}
	} else {
		tlen = "0"
	}
	f.eng.note("append modelled as always allocating a fresh backing array (no in-place growth aliasing)")
	base := f.newObj(st, "append")
	f.ctx.Fact(fmt.Sprintf("(<= (objtype (pobj %s)) 0)", base))
	r := f.ctx.Fresh(instr.Name(), "Slice")
	f.ctx.Fact(fmt.Sprintf("(and (= (sbase %s) %s) (= (soff %s) 0) (= (slen_ %s) (+ (slen_ %s) %s)) (>= (scap %s) (slen_ %s)))", r, base, r, r, s, tlen, r, r))
	for _, lf := range leaves(et) {
		if _, ok := lf.typ.Underlying().(*types.Array); ok {
			f.eng.note("append of elements containing arrays: array contents not tracked")
			continue
		}
		h := f.heap(st, heapName(lf.typ))
		dst := addrPath(fmt.Sprintf("(selem %s i)", r), lf.path)
		src := addrPath(fmt.Sprintf("(selem %s i)", s), lf.path)
		pats := fmt.Sprintf(":pattern ((select %s %s))", h, dst)
		if top := f.top; top != nil && top.contract != nil && top.contract.ForwardTerms {
			pats += fmt.Sprintf(" :pattern ((select %s %s))", h, src)
		}
		f.ctx.Fact(fmt.Sprintf("(forall ((i Int)) (! (=> (and (<= 0 i) (< i (slen_ %s))) (= (select %s %s) (select %s %s))) %s))", s, h, dst, h, src, pats))
		if t != "" {
			// appended elements: r[j] = t[j-len(s)] for len(s) <= j < len(s)+len(t), stated over the
			// result index j so that a read r[j] matches the pattern without arithmetic
			mk := func(j, off string) (string, string) {
				d := addrPath(fmt.Sprintf("(selem %s %s)", r, j), lf.path)
				if tIsStr {
					return d, fmt.Sprintf("(sat %s %s)", t, off)
				}
				return d, fmt.Sprintf("(select %s %s)", h, addrPath(fmt.Sprintf("(selem %s %s)", t, off), lf.path))
			}
			dst2, srcv := mk("j", fmt.Sprintf("(- j (slen_ %s))", s))
			f.ctx.Fact(fmt.Sprintf("(forall ((j Int)) (! (=> (and (<= (slen_ %s) j) (< j (+ (slen_ %s) %s))) (= (select %s %s) %s)) :pattern ((select %s %s))))", s, s, tlen, h, dst2, srcv, h, dst2))
			// ground instance for the first appended element (names the term for e-matching)
			d0, s0 := mk(fmt.Sprintf("(slen_ %s)", s), "0")
			f.ctx.Fact(fmt.Sprintf("(=> (< 0 %s) (= (select %s %s) %s))", tlen, h, d0, s0))
		}
	}
	if isByteSlice(cc.Args[0].Type()) {
		h := f.heap(st, "H_uint8")
		tc := "str_empty"
		if t != "" {
			if tIsStr {
				tc = t
			} else {
				tc = fmt.Sprintf("(content %s %s)", h, t)
			}
		}
		f.ctx.Fact(fmt.Sprintf("(= (content %s %s) (scat (content %s %s) %s))", h, r, h, s, tc))
	}
	f.vals[instr] = r
}

func (f *Frame) copyOp(instr *ssa.Call, cc *ssa.CallCommon, reach string, st *State) {
	dst := f.val(cc.Args[0])
	src := f.val(cc.Args[1])
	et := cc.Args[0].Type().Underlying().(*types.Slice).Elem()
	srcIsStr := isString(cc.Args[1].Type())
	var slen string
	if srcIsStr {
		slen = fmt.Sprintf("(slen %s)", src)
	} else {
		slen = fmt.Sprintf("(slen_ %s)", src)
	}
	f.storeFrameAt(cc.Pos(), f.srcTextOr(cc.Pos(), "copy"), "(pobj (sbase "+dst+"))", "", dst, And(reach, "(> (slen_ "+dst+") 0)"))
	n := f.ctx.Fresh("copy_n", "Int")
	f.ctx.Fact(fmt.Sprintf("(= %s (ite (<= (slen_ %s) %s) (slen_ %s) %s))", n, dst, slen, dst, slen))
	if _, ok := et.Underlying().(*types.Basic); !ok {
		f.bail("copy of non-basic elements")
	}
	hn := heapName(et)
	h := f.heap(st, hn)
	nh := f.ctx.Fresh(hn, heapSort(hn))
	var srcv string
	if srcIsStr {
		srcv = fmt.Sprintf("(sat %s (- (eidx (ppath q)) (soff %s)))", src, dst)
	} else {
		srcv = fmt.Sprintf("(select %s (selem %s (- (eidx (ppath q)) (soff %s))))", h, src, dst)
	}
	inDst := fmt.Sprintf("(and (not (= q nil)) (not (= (sbase %s) nil)) (= (pobj q) (pobj (sbase %s))) ((_ is elem) (ppath q)) (= (ebase (ppath q)) (ppath (sbase %s))) (<= (soff %s) (eidx (ppath q))) (< (eidx (ppath q)) (+ (soff %s) %s)))", dst, dst, dst, dst, dst, n)
	f.ctx.Fact(fmt.Sprintf("(forall ((q Ptr)) (! (= (select %s q) (ite %s %s (select %s q))) :pattern ((select %s q))))", nh, inDst, srcv, h, nh))
	if hn == "H_uint8" {
		f.ctx.Fact(fmt.Sprintf("(forall ((s Slice)) (! (=> (not (= (pobj (sbase s)) (pobj (sbase %s)))) (= (content %s s) (content %s s))) :pattern ((content %s s))))", dst, nh, h, nh))
	}
	st.heaps[hn] = nh
	if instr != nil {
		f.vals[instr] = n
	}
}


// freshOnly reports whether fn (transitively) writes only to objects it
// allocated itself: from a caller's point of view no pre-existing object
// changes. Decided syntactically on the SSA of the current tree.
func (e *Engine) freshOnly(c *Ctx, fn *ssa.Function) bool {
	name := FuncName(fn)
	if v, ok := e.freshMemo[name]; ok {
		return v
	}
	e.freshMemo[name] = false // recursion guard
	if fn.Blocks == nil {
		return false
	}
	var freshPtr func(v ssa.Value, depth int) bool
	var freshSlice func(v ssa.Value, depth int) bool
	freshPtr = func(v ssa.Value, depth int) bool {
		if depth > 20 {
			return false
		}
		switch x := v.(type) {
		case *ssa.Alloc, *ssa.MakeMap, *ssa.MakeChan, *ssa.MakeClosure:
			return true
		case *ssa.FieldAddr:
			return freshPtr(x.X, depth+1)
		case *ssa.IndexAddr:
			if _, ok := x.X.Type().Underlying().(*types.Slice); ok {
				return freshSlice(x.X, depth+1)
			}
			return freshPtr(x.X, depth+1)
		case *ssa.Phi:
			for _, ed := range x.Edges {
				if ed == v {
					continue
				}
				if !freshPtr(ed, depth+1) {
					return false
				}
			}
			return true
		}
		return false
	}
	freshSlice = func(v ssa.Value, depth int) bool {
		if depth > 20 {
			return false
		}
		switch x := v.(type) {
		case *ssa.MakeSlice:
			return true
		case *ssa.Slice:
			if _, ok := x.X.Type().Underlying().(*types.Slice); ok {
				return freshSlice(x.X, depth+1)
			}
			if _, ok := x.X.Type().Underlying().(*types.Pointer); ok {
				return freshPtr(x.X, depth+1)
			}
		case *ssa.Call:
			if b, ok := x.Common().Value.(*ssa.Builtin); ok && b.Name() == "append" {
				return true
			}
		case *ssa.Phi:
			for _, ed := range x.Edges {
				if ed == v {
					continue
				}
				if !freshSlice(ed, depth+1) {
					return false
				}
			}
			return true
		}
		return false
	}
	tmp := &Frame{eng: e, ctx: c, fn: fn}
	for _, b := range fn.Blocks {
		for _, in := range b.Instrs {
			switch x := in.(type) {
			case *ssa.Store:
				if !freshPtr(x.Addr, 0) {
					return false
				}
			case *ssa.MapUpdate:
				if !freshPtr(x.Map, 0) {
					return false
				}
			case *ssa.Go:
				return false
			case *ssa.Call, *ssa.Defer:
				cc := in.(ssa.CallInstruction).Common()
				if bi, ok := cc.Value.(*ssa.Builtin); ok {
					switch bi.Name() {
					case "copy":
						if !freshSlice(cc.Args[0], 0) {
							return false
						}
					case "delete":
						if !freshPtr(cc.Args[0], 0) {
							return false
						}
					case "clear":
						return false
					}
					continue
				}
				if cc.IsInvoke() {
					w := tmp.callWrites(cc)
					if w.All || len(w.Heaps) > 0 {
						return false
					}
					continue
				}
				callee := cc.StaticCallee()
				if callee == nil {
					return false
				}
				if specialCallee(callee) != "" {
					continue
				}
				if fc := e.contractFor(callee); fc != nil && !fc.Inline {
					if fc.SpecOnly && !fc.WritesAll && len(fc.Writes) == 0 && len(fc.Modifies) == 0 {
						continue
					}
					return false
				}
				w := e.writesOf(c, callee)
				if !w.All && len(w.Heaps) == 0 {
					continue
				}
				if !e.freshOnly(c, callee) {
					return false
				}
			}
		}
	}
	e.freshMemo[name] = true
	return true
}
