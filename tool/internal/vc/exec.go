package vc

import (
	"fmt"
	"go/constant"
	"go/token"
	"go/types"
	"sort"
	"strings"

	"golang.org/x/tools/go/ssa"
)

// State is the symbolic heap at one program point.
type State struct {
	heaps map[string]string
	base  string // suffix for lazily created heap versions
	alloc string
	// snaps: the state right after the most recent Lock of each mutex on this path (key: the
	// guard declaration's key; "#last": the most recent Lock of any mutex). Snapshots carry none.
	snaps map[string]*State
	// held: the locks this path holds, with the cells (guarded fields / variables) they protect
	held []heldLock
}

type heldLock struct {
	key   string
	owner string
	cells []immCell
}

func (s *State) clone() *State {
	n := &State{heaps: make(map[string]string, len(s.heaps)), base: s.base, alloc: s.alloc, held: append([]heldLock(nil), s.held...)}
	for k, v := range s.heaps {
		n.heaps[k] = v
	}
	if s.snaps != nil {
		n.snaps = make(map[string]*State, len(s.snaps))
		for k, v := range s.snaps {
			n.snaps[k] = v
		}
	}
	return n
}

// heap returns the current term of a heap, creating it lazily.
func (f *Frame) heap(st *State, name string) string {
	if t, ok := st.heaps[name]; ok {
		return t
	}
	n := sanitize(name) + "$" + st.base
	fresh := !f.ctx.declSet[n]
	f.ctx.DeclareOnce(n, fmt.Sprintf("(declare-fun %s () %s)", n, heapSort(name)))
	st.heaps[name] = n
	if fresh {
		if lf := f.ctx.baseFrames[st.base]; lf != nil {
			f.frameFact1(name, f.heap(lf.before, name), n, lf.before.alloc, lf.guard, lf.modObjs)
		}
		f.heapWF(name, n, st.alloc)
		// the heap version came into being when its base did: stored pointers refer to objects
		// that existed then (stronger than the same statement about the later allocation counter)
		if ba, ok := f.ctx.baseAlloc[st.base]; ok && ba != st.alloc {
			f.heapWF(name, n, ba)
		}
	}
	return n
}

// heapWF: every pointer stored anywhere in a heap refers to an object that has
// already been allocated (Go has no dangling "future" pointers). Stated for
// fresh heap versions (initial and havocked); versions built by store inherit it.
func (f *Frame) heapWF(name, h, alloc string) {
	if alloc == "" {
		return
	}
	// The facts speak about cells of objects that exist in this heap version (pobj p < alloc):
	// the cells of objects allocated later are described, in the same heap version, by the facts
	// emitted at their allocation (zero initialisation, appended elements) and must stay free here.
	live := fmt.Sprintf("(< (pobj p) %s)", alloc)
	livem := fmt.Sprintf("(< (pobj m) %s)", alloc)
	switch name {
	case "H_ptr":
		f.ctx.Fact(fmt.Sprintf("(forall ((p Ptr)) (! (=> %s (or (= (select %s p) nil) (and (< (pobj (select %s p)) %s) (not (islocalobj (pobj (select %s p))))))) :pattern ((select %s p))))", live, h, h, alloc, h, h))
	case "H_iface":
		// a pointer boxed in a stored interface value refers to an allocated object (for values of
		// other dynamic types unbox_Ptr is unconstrained, so this says nothing about them)
		f.ctx.Fact(fmt.Sprintf("(forall ((p Ptr)) (! (=> %s (or (= (unbox_Ptr (ival (select %s p))) nil) (and (< (pobj (unbox_Ptr (ival (select %s p)))) %s) (not (islocalobj (pobj (unbox_Ptr (ival (select %s p))))))))) :pattern ((select %s p))))", live, h, h, alloc, h, h))
	case "H_slice":
		f.ctx.Fact(fmt.Sprintf("(forall ((p Ptr)) (! (=> %s (or (= (sbase (select %s p)) nil) (< (pobj (sbase (select %s p))) %s))) :pattern ((select %s p))))", live, h, h, alloc, h))
	default:
		// pointer-valued maps: every stored pointer refers to an allocated object
		if strings.HasPrefix(name, "Mval|") && strings.HasSuffix(name, "|Ptr") {
			ks := strings.Split(name, "|")[1]
			f.ctx.Fact(fmt.Sprintf("(forall ((m Ptr) (k %s)) (! (=> %s (or (= (select (select %s m) k) nil) (and (< (pobj (select (select %s m) k)) %s) (not (islocalobj (pobj (select (select %s m) k))))))) :pattern ((select (select %s m) k))))", ks, livem, h, h, alloc, h, h))
		}
		// interface-valued maps: a pointer boxed in a stored interface value refers to an allocated,
		// non-local object (as for H_iface)
		if strings.HasPrefix(name, "Mval|") && strings.HasSuffix(name, "|Iface") {
			ks := strings.Split(name, "|")[1]
			v := fmt.Sprintf("(unbox_Ptr (ival (select (select %s m) k)))", h)
			f.ctx.Fact(fmt.Sprintf("(forall ((m Ptr) (k %s)) (! (=> %s (or (= %s nil) (and (< (pobj %s) %s) (not (islocalobj (pobj %s)))))) :pattern ((select (select %s m) k))))", ks, livem, v, v, alloc, v, h))
		}
		// pointer-keyed maps: every key in the domain refers to an allocated object
		if strings.HasPrefix(name, "Mdom|Ptr|") {
			f.ctx.Fact(fmt.Sprintf("(forall ((m Ptr) (k Ptr)) (! (=> (and %s (select (select %s m) k)) (or (= k nil) (and (< (pobj k) %s) (not (islocalobj (pobj k)))))) :pattern ((select (select %s m) k))))", livem, h, alloc, h))
		}
		// slice-valued maps: the backing array of every stored slice is allocated
		if strings.HasPrefix(name, "Mval|") && strings.HasSuffix(name, "|Slice") {
			ks := strings.Split(name, "|")[1]
			v := fmt.Sprintf("(select (select %s m) k)", h)
			f.ctx.Fact(fmt.Sprintf("(forall ((m Ptr) (k %s)) (! (=> %s (and (or (= (sbase %s) nil) (< (pobj (sbase %s)) %s)) (<= 0 (soff %s)) (<= 0 (slen_ %s)) (<= (slen_ %s) (scap %s)) (=> (= (sbase %s) nil) (= %s nilslice)) (or (= (sbase %s) nil) (not (ismapobj (pobj (sbase %s))))))) :pattern (%s)))", ks, livem, v, v, alloc, v, v, v, v, v, v, v, v, v))
		}
	}
}

// Frame is one activation of a function under symbolic execution.
type Frame struct {
	eng    *Engine
	ctx    *Ctx
	fn     *ssa.Function
	top    *Frame // the top-level frame (owner of obligations)
	parent *Frame
	depth  int
	vals   map[ssa.Value]string
	tuples map[ssa.Value][]string
	// per-block results
	reach  map[*ssa.BasicBlock]string
	endSt  map[*ssa.BasicBlock]*State
	loops  *loopInfo
	entry  *State
	params []string
	// defers registered on this activation.
	defers []deferred
	// returns
	rets []retPoint
	// top-level only
	contract *FuncContract
	ordinals map[string]int
	prefix   string // obligation name prefix for inlined frames
	bailed   string
	// closure info: term -> closure
	closures map[string]*closureVal
	// facts about instructions that were used as anchors
	callOrd map[string]int
	// frame discipline (top-level frames)
	alloc0        string
	framed        bool
	modObjs       []string
	usedContracts map[string]bool
	assertsHit    map[string]bool
	bridged       map[string]bool
	// monitor model (lock.go)
	lockSnaps    map[string]*State
	lastLockSnap *State
	callSnaps    map[string]*State // state before call sites carrying asserts (atcall)
	callReach    map[string][]string // path conditions of the call sites met so far, by callee (called(X))
	callArgs     map[string]map[string]sval
	loopIdxTerms []string // loop counters, offered as witnesses for existentials to be proved
	ownObjs      []string // objects allocated by this symbolic execution (initonly.go)
	bcastOwner   map[string]string // `broadcast` callback parameter -> owner of the Broadcast (ghost bcastCalls)
	immCells     []immCell         // assigned-once local variable cells (top-level frame)
	// calleeBindings: captured-variable cells of the closure whose contract is being applied
	calleeBindings []string
	// havocCallee: the statically known callee whose call is being havocked (nil otherwise)
	havocCallee *ssa.Function
	// havocLoop: the loop whose head state is being havocked (nil otherwise)
	havocLoop *loop
	fromDefer      bool // this (inlined) activation was started by RunDefers
	runningDefers  bool // RunDefers of this activation is being executed
	// outerVars: variables of enclosing functions that this (separately verified) closure does
	// not capture, as arbitrary values (contracts may mention them)
	outerVars map[string]sval
	lastLockReach string
	csHit     map[string]bool // cs clauses that applied to some section
	csCount   map[string]int
	noopFuncs map[string]bool
	curBlock  *ssa.BasicBlock
}

type closureVal struct {
	fn       *ssa.Function
	bindings []string
}

type deferred struct {
	call  *ssa.Defer
	reach string
}

type retPoint struct {
	reach string
	vals  []string
	st    *State
	instr *ssa.Return
}

type bailout struct{ msg string }

func (f *Frame) bail(format string, a ...any) {
	panic(bailout{fmt.Sprintf(format, a...)})
}

// ---- loops ----

type loopInfo struct {
	heads   map[*ssa.BasicBlock]*loop
	rpo     []*ssa.BasicBlock
	isBack  map[[2]int]bool
	ordered []*loop
}

type loop struct {
	head    *ssa.BasicBlock
	blocks  map[*ssa.BasicBlock]bool
	ordinal int
	label   string
}

func (e *Engine) loopsOf(fn *ssa.Function) *loopInfo {
	key := FuncName(fn)
	if li, ok := e.loopMemo[key]; ok {
		return li
	}
	li := &loopInfo{heads: map[*ssa.BasicBlock]*loop{}, isBack: map[[2]int]bool{}}
	// back edges: P -> H where H dominates P.
	for _, b := range fn.Blocks {
		for _, s := range b.Succs {
			if s.Dominates(b) {
				li.isBack[[2]int{b.Index, s.Index}] = true
				l := li.heads[s]
				if l == nil {
					l = &loop{head: s, blocks: map[*ssa.BasicBlock]bool{s: true}}
					li.heads[s] = l
				}
				// natural loop: nodes reaching b without passing s.
				var stack []*ssa.BasicBlock
				if !l.blocks[b] {
					l.blocks[b] = true
					stack = append(stack, b)
				}
				for len(stack) > 0 {
					x := stack[len(stack)-1]
					stack = stack[:len(stack)-1]
					for _, p := range x.Preds {
						if !l.blocks[p] {
							l.blocks[p] = true
							stack = append(stack, p)
						}
					}
				}
			}
		}
	}
	// reverse post-order ignoring back edges.
	seen := map[*ssa.BasicBlock]bool{}
	var post []*ssa.BasicBlock
	var dfs func(b *ssa.BasicBlock)
	dfs = func(b *ssa.BasicBlock) {
		seen[b] = true
		for _, s := range b.Succs {
			if li.isBack[[2]int{b.Index, s.Index}] || seen[s] {
				continue
			}
			dfs(s)
		}
		post = append(post, b)
	}
	if len(fn.Blocks) > 0 {
		dfs(fn.Blocks[0])
	}
	for i := len(post) - 1; i >= 0; i-- {
		li.rpo = append(li.rpo, post[i])
	}
	// ordinals by minimal source position of the loop's instructions.
	for _, l := range li.heads {
		li.ordered = append(li.ordered, l)
	}
	minPos := func(l *loop) token.Pos {
		var m token.Pos
		for b := range l.blocks {
			for _, in := range b.Instrs {
				if _, isPhi := in.(*ssa.Phi); isPhi {
					continue // a phi carries the position of the variable's declaration, not of the loop
				}
				if p := in.Pos(); p.IsValid() && (m == 0 || p < m) {
					m = p
				}
			}
		}
		return m
	}
	sort.Slice(li.ordered, func(i, j int) bool {
		pi, pj := minPos(li.ordered[i]), minPos(li.ordered[j])
		if pi != pj {
			return pi < pj
		}
		return len(li.ordered[i].blocks) > len(li.ordered[j].blocks)
	})
	for i, l := range li.ordered {
		l.ordinal = i + 1
	}
	e.loopMemo[key] = li
	return li
}

// ---- write sets ----

type WriteSet struct {
	All   bool
	Heaps map[string]bool
}

func (w *WriteSet) add(o *WriteSet) {
	if o.All {
		w.All = true
	}
	for h := range o.Heaps {
		w.Heaps[h] = true
	}
}

func storeHeaps(c *Ctx, t types.Type, into map[string]bool) {
	for _, lf := range leaves(t) {
		if a, ok := lf.typ.Underlying().(*types.Array); ok {
			storeHeaps(c, a.Elem(), into)
			continue
		}
		into[heapName(lf.typ)] = true
	}
}

func mapHeaps(c *Ctx, m *types.Map) (dom, val string) {
	k := c.sortOf(m.Key())
	v := c.sortOf(m.Elem())
	return "Mdom|" + k + "|" + v, "Mval|" + k + "|" + v
}

// mapLenHeap: the heap holding the lengths of maps of this type. Domain, value and length heaps
// are separate per (key sort, value sort): maps of different types never interfere.
func mapLenHeap(c *Ctx, m *types.Map) string {
	return "M_len|" + c.sortOf(m.Key()) + "|" + c.sortOf(m.Elem())
}

// instrWrites adds the heaps an instruction may write.
func (f *Frame) instrWrites(in ssa.Instruction, w *WriteSet) {
	switch x := in.(type) {
	case *ssa.Store:
		storeHeaps(f.ctx, x.Val.Type(), w.Heaps)
	case *ssa.MapUpdate:
		d, v := mapHeaps(f.ctx, x.Map.Type().Underlying().(*types.Map))
		w.Heaps[d], w.Heaps[v], w.Heaps[mapLenHeap(f.ctx, x.Map.Type().Underlying().(*types.Map))] = true, true, true
	case *ssa.Next:
		if hn := f.rangeSeenHeap(x); hn != "" {
			w.Heaps[hn] = true
		}
	case *ssa.Call:
		if f.framedNoModsCall(x.Common()) {
			// the callee changes no object that exists before the call: the cells of the objects
			// it allocates are described by its contract in the current heap versions
			return
		}
		w.add(f.callWrites(x.Common()))
	case *ssa.Defer:
		w.add(f.callWrites(x.Common()))
	case *ssa.Go:
		// the spawned body runs concurrently, not in this path (its effects on lock-protected
		// state are modelled at Lock; unprotected shared state is outside the model)
	case *ssa.Select, *ssa.Send:
		// blocking: other goroutines may run; lock-protected state is
		// re-havocked at Lock, unprotected shared state is outside the model.
		if _, ok := ghostHeaps["chanSent"]; ok {
			w.Heaps["G_chanSent"] = true
		}
	}
}

func (f *Frame) callWrites(cc *ssa.CallCommon) *WriteSet {
	w := &WriteSet{Heaps: map[string]bool{}}
	if b, ok := cc.Value.(*ssa.Builtin); ok {
		switch b.Name() {
		case "append":
			// fresh backing store only.
		case "copy":
			if sl, ok := cc.Args[0].Type().Underlying().(*types.Slice); ok {
				storeHeaps(f.ctx, sl.Elem(), w.Heaps)
			}
		case "delete":
			d, v := mapHeaps(f.ctx, cc.Args[0].Type().Underlying().(*types.Map))
			w.Heaps[d], w.Heaps[v], w.Heaps[mapLenHeap(f.ctx, cc.Args[0].Type().Underlying().(*types.Map))] = true, true, true
		case "close":
			if _, ok := ghostHeaps["chanClosed"]; ok {
				w.Heaps["G_chanClosed"] = true
			}
		case "clear":
			w.All = true
		}
		return w
	}
	if cc.IsInvoke() {
		if ic := f.eng.ifaceContract(cc); ic != nil {
			if ic.Pure {
				return w
			}
			if ic.WritesAll {
				w.All = true
			}
			for _, h := range ic.Writes {
				w.Heaps[h] = true
			}
			if !ic.HasWrites && !ic.Pure {
				// contract without writes clause: assumed to write nothing visible
			}
			return w
		}
		w.All = true
		return w
	}
	callee := cc.StaticCallee()
	if callee == nil {
		if nt, ok := cc.Value.Type().(*types.Named); ok && nt.Obj().Pkg() != nil && nt.Obj().Pkg().Path() == "context" && nt.Obj().Name() == "CancelFunc" {
			return w
		}
		w.All = true
		if _, ok := ghostHeaps["bcastCalls"]; ok {
			w.Heaps["G_bcastCalls"] = true // the value may be a `broadcast` callback parameter
		}
		return w
	}
	w.add(f.eng.writesOf(f.ctx, callee))
	return w
}

// writesOf computes the transitive may-write heap set of a function.
func (e *Engine) writesOf(c *Ctx, fn *ssa.Function) *WriteSet {
	name := FuncName(fn)
	if w, ok := e.writeMemo[name]; ok {
		return w
	}
	if fc := e.contractFor(fn); fc != nil && (fc.SpecOnly || fc.HasWrites) {
		w := &WriteSet{All: fc.WritesAll, Heaps: map[string]bool{}}
		for _, h := range fc.Writes {
			w.Heaps[h] = true
		}
		if len(fc.Modifies) > 0 && !fc.HasWrites && !fc.WritesAll {
			// an assumed contract that names modified objects but no heaps: every heap may be
			// written (inside those objects; the frame facts keep everything else)
			w.All = true
		}
		e.writeMemo[name] = w
		return w
	}
	if e.writeBusy[name] || fn.Blocks == nil {
		return &WriteSet{All: true, Heaps: map[string]bool{}}
	}
	if special := specialCallee(fn); special != "" {
		w := &WriteSet{Heaps: map[string]bool{}}
		e.writeMemo[name] = w
		return w
	}
	if (fn.Name() == "MarshalVT" || fn.Name() == "SizeVT" || fn.Name() == "EqualVT" || fn.Name() == "CloneVT") && fn.Pos().IsValid() && strings.HasSuffix(e.Prog.Fset.Position(fn.Pos()).Filename, ".pb.go") {
		// generated marshalling: allocates and fills a fresh buffer / message
		e.note("generated MarshalVT/SizeVT/EqualVT/CloneVT in *.pb.go are assumed to write only memory they allocate")
		w := &WriteSet{Heaps: map[string]bool{}}
		e.writeMemo[name] = w
		return w
	}
	if fn.Name() == "String" && fn.Pos().IsValid() && strings.HasSuffix(e.Prog.Fset.Position(fn.Pos()).Filename, ".pb.go") {
		// generated enum/message String(): formatting only
		e.note("generated String() methods in *.pb.go are assumed to have no visible side effects")
		w := &WriteSet{Heaps: map[string]bool{}}
		e.writeMemo[name] = w
		return w
	}
	e.writeBusy[name] = true
	defer delete(e.writeBusy, name)
	w := &WriteSet{Heaps: map[string]bool{}}
	tmp := &Frame{eng: e, ctx: c, fn: fn}
	for _, b := range fn.Blocks {
		for _, in := range b.Instrs {
			tmp.instrWrites(in, w)
		}
	}
	for _, af := range fn.AnonFuncs {
		_ = af // closures are accounted for when called or passed on (calls through values are All)
	}
	e.writeMemo[name] = w
	return w
}

// ---- contract lookup ----

func (e *Engine) contractFor(fn *ssa.Function) *FuncContract {
	name := FuncName(fn)
	// a contract for one instantiation of a generic type's method:
	// pkg.(*T[<type args, module prefix dropped>]).M
	if recv := fn.Signature.Recv(); recv != nil && fn.Parent() == nil {
		t, ptr := recv.Type(), ""
		if pt, ok := t.(*types.Pointer); ok {
			t, ptr = pt.Elem(), "*"
		}
		if nt, ok := t.(*types.Named); ok && nt.TypeArgs().Len() > 0 && nt.Obj().Pkg() != nil {
			var as []string
			for i := 0; i < nt.TypeArgs().Len(); i++ {
				as = append(as, strings.ReplaceAll(types.TypeString(nt.TypeArgs().At(i), nil), modPrefix, ""))
			}
			inst := fmt.Sprintf("%s.(%s%s[%s]).%s", nt.Obj().Pkg().Path(), ptr, nt.Obj().Name(), strings.Join(as, ","), fn.Name())
			if fc, ok := e.CS.Funcs[inst]; ok {
				return fc
			}
		}
	}
	if fc, ok := e.CS.Funcs[name]; ok {
		return fc
	}
	if strings.HasPrefix(name, modPrefix) {
		if fc, ok := e.CS.Funcs[strings.TrimPrefix(name, modPrefix)]; ok {
			return fc
		}
	}
	// generic instantiations: strip type arguments "[...]".
	if i := strings.Index(name, "["); i >= 0 {
		if j := strings.LastIndex(name, "]"); j > i {
			base := name[:i] + name[j+1:]
			if fc, ok := e.CS.Funcs[base]; ok {
				return fc
			}
		}
	}
	return nil
}

func (e *Engine) ifaceContract(cc *ssa.CallCommon) *FuncContract {
	m := cc.Method
	recv := cc.Value.Type()
	var names []string
	if n, ok := recv.(*types.Named); ok && n.Obj().Pkg() != nil {
		names = append(names, n.Obj().Pkg().Path()+"."+n.Obj().Name()+"."+m.Name())
	} else if n, ok := recv.(*types.Named); ok {
		names = append(names, n.Obj().Name()+"."+m.Name())
	}
	// method's declaring interface (for embedded interfaces)
	if m.Pkg() != nil {
		if sig, ok := m.Type().(*types.Signature); ok && sig.Recv() != nil {
			if n, ok := sig.Recv().Type().(*types.Named); ok && n.Obj().Pkg() != nil {
				names = append(names, n.Obj().Pkg().Path()+"."+n.Obj().Name()+"."+m.Name())
			}
		}
	}
	// explicit interface-method contracts first
	for _, n := range names {
		if ic, ok := e.CS.Ifaces[n]; ok {
			return ic
		}
		if strings.HasPrefix(n, modPrefix) {
			if ic, ok := e.CS.Ifaces[strings.TrimPrefix(n, modPrefix)]; ok {
				return ic
			}
		}
	}
	// stable pure getters declared per interface
	if sig, ok := m.Type().(*types.Signature); ok && sig.Params().Len() == 0 && sig.Results().Len() == 1 {
		for _, n := range names {
			i := strings.LastIndex(n, ".")
			if i < 0 {
				continue
			}
			in := n[:i]
			if e.CS.isGetter(in, m.Name()) {
				return &FuncContract{Ref: n, Pure: true, SpecOnly: true, Trusted: true}
			}
		}
	}
	names = append(names, "*."+m.Name())
	for _, n := range names {
		if ic, ok := e.CS.Ifaces[n]; ok {
			return ic
		}
		if strings.HasPrefix(n, modPrefix) {
			if ic, ok := e.CS.Ifaces[strings.TrimPrefix(n, modPrefix)]; ok {
				return ic
			}
		}
	}
	return nil
}

// ---- values ----

func (f *Frame) val(v ssa.Value) string {
	switch x := v.(type) {
	case *ssa.Const:
		return f.constTerm(x)
	case *ssa.Global:
		return f.globalPtr(x)
	case *ssa.Function:
		id := f.eng.globalID("func:" + FuncName(x))
		return fmt.Sprintf("(ptr (- %d) here)", id+1000000)
	case *ssa.Builtin:
		f.bail("builtin %s used as value", x.Name())
	}
	if t, ok := f.vals[v]; ok {
		return t
	}
	if _, ok := f.tuples[v]; ok {
		f.bail("tuple value %s used as scalar", v.Name())
	}
	f.bail("value %s (%T) in %s has no term", v.Name(), v, f.fn.Name())
	return ""
}

func (f *Frame) globalPtr(g *ssa.Global) string {
	name := g.Pkg.Pkg.Path() + "." + g.Name()
	id := f.eng.globalID("glob:" + name)
	return fmt.Sprintf("(ptr (- %d) here)", id)
}

func (f *Frame) constTerm(c *ssa.Const) string {
	t := c.Type()
	if c.Value == nil {
		return f.ctx.zero(t)
	}
	switch c.Value.Kind() {
	case constant.Bool:
		if constant.BoolVal(c.Value) {
			return "true"
		}
		return "false"
	case constant.String:
		return f.ctx.strLit(constant.StringVal(c.Value))
	case constant.Int:
		s := c.Value.ExactString()
		if f.ctx.sortOf(t) == "Real" {
			return s + ".0"
		}
		if strings.HasPrefix(s, "-") {
			return "(- " + s[1:] + ")"
		}
		return s
	case constant.Float:
		if f.ctx.sortOf(t) == "Int" {
			v, _ := constant.Int64Val(constant.ToInt(c.Value))
			return IntLit(v)
		}
		fl, _ := constant.Float64Val(c.Value)
		s := fmt.Sprintf("%f", fl)
		if strings.HasPrefix(s, "-") {
			return "(- " + s[1:] + ")"
		}
		return s
	}
	return f.ctx.Fresh("const", f.ctx.sortOf(t))
}

// strLit declares (once) a constant for a string literal with its length and bytes.
func (c *Ctx) strLit(s string) string {
	if s == "" {
		return "str_empty"
	}
	if c.strLits == nil {
		c.strLits = map[string]string{}
	}
	if n, ok := c.strLits[s]; ok {
		return n
	}
	n := fmt.Sprintf("strlit_%d", len(c.strLits))
	c.Decls = append(c.Decls, fmt.Sprintf("(declare-fun %s () Str)", n))
	c.Fact(fmt.Sprintf("(= (slen %s) %d)", n, len(s)))
	if len(s) <= 80 {
		var fs []string
		for i := 0; i < len(s); i++ {
			fs = append(fs, fmt.Sprintf("(= (sat %s %d) %d)", n, i, s[i]))
		}
		c.Fact(And(fs...))
	}
	for _, o := range c.strLitOrder {
		if len(o) == len(s) {
			c.Fact(fmt.Sprintf("(not (= %s %s))", n, c.strLits[o]))
		}
	}
	c.strLits[s] = n
	c.strLitOrder = append(c.strLitOrder, s)
	return n
}

// ---- loads and stores ----

func (f *Frame) load(st *State, addr string, t types.Type) string {
	switch u := t.Underlying().(type) {
	case *types.Struct:
		si := f.ctx.structInfoOf(t)
		if u.NumFields() == 0 {
			return si.ctor
		}
		var fs []string
		for i := 0; i < u.NumFields(); i++ {
			fs = append(fs, f.load(st, fmt.Sprintf("(fldp %s %d)", addr, i), u.Field(i).Type()))
		}
		return "(" + si.ctor + " " + strings.Join(fs, " ") + ")"
	case *types.Array:
		if _, ok := u.Elem().Underlying().(*types.Struct); ok {
			f.bail("load of array of structs")
		}
		if _, ok := u.Elem().Underlying().(*types.Array); ok {
			// nested arrays: array of arrays
			inner := u.Elem().Underlying().(*types.Array)
			a := f.ctx.Fresh("arr", f.ctx.sortOf(t))
			h := f.heap(st, heapName(inner.Elem()))
			f.ctx.Fact(fmt.Sprintf("(forall ((i Int) (j Int)) (! (= (select (select %s i) j) (select %s (elemp (elemp %s i) j))) :pattern ((select (select %s i) j)) :pattern ((select %s (elemp (elemp %s i) j)))))", a, h, addr, a, h, addr))
			return a
		}
		a := f.ctx.Fresh("arr", f.ctx.sortOf(t))
		h := f.heap(st, heapName(u.Elem()))
		f.ctx.Fact(fmt.Sprintf("(forall ((i Int)) (! (= (select %s i) (select %s (elemp %s i))) :pattern ((select %s i)) :pattern ((select %s (elemp %s i)))))", a, h, addr, a, h, addr))
		return a
	}
	h := f.heap(st, heapName(t))
	return fmt.Sprintf("(select %s %s)", h, addr)
}

// loadNamed loads and names the value, adding type facts.
func (f *Frame) loadVal(st *State, addr string, t types.Type, hint string) string {
	raw := f.load(st, addr, t)
	v := f.ctx.Fresh(hint, f.ctx.sortOf(t))
	f.ctx.Fact(Eq(v, raw))
	f.ctx.Fact(f.ctx.typeFacts(v, t, st.alloc))
	return v
}

func (f *Frame) store(st *State, addr string, t types.Type, v string) {
	switch u := t.Underlying().(type) {
	case *types.Struct:
		si := f.ctx.structInfoOf(t)
		for i := 0; i < u.NumFields(); i++ {
			f.store(st, fmt.Sprintf("(fldp %s %d)", addr, i), u.Field(i).Type(), "("+si.sels[i]+" "+v+")")
		}
		return
	case *types.Array:
		if _, ok := u.Elem().Underlying().(*types.Basic); !ok {
			f.bail("store of array with non-basic elements")
		}
		hn := heapName(u.Elem())
		h := f.heap(st, hn)
		nh := f.ctx.Fresh(hn, heapSort(hn))
		f.ctx.Fact(fmt.Sprintf("(forall ((q Ptr)) (! (= (select %s q) (ite (and (not (= q nil)) (= (pobj q) (pobj %s)) ((_ is elem) (ppath q)) (= (ebase (ppath q)) (ppath %s)) (<= 0 (eidx (ppath q))) (< (eidx (ppath q)) %d)) (select %s (eidx (ppath q))) (select %s q))) :pattern ((select %s q))))",
			nh, addr, addr, u.Len(), v, h, nh))
		if hn == "H_uint8" {
			f.ctx.Fact(fmt.Sprintf("(forall ((s Slice)) (! (=> (not (= (pobj (sbase s)) (pobj %s))) (= (content %s s) (content %s s))) :pattern ((content %s s))))", addr, nh, h, nh))
		}
		st.heaps[hn] = nh
		return
	}
	hn := heapName(t)
	h := f.heap(st, hn)
	nh := f.ctx.Fresh(hn, heapSort(hn))
	f.ctx.Fact(fmt.Sprintf("(= %s (store %s %s %s))", nh, h, addr, v))
	if hn == "H_uint8" {
		f.ctx.Fact(fmt.Sprintf("(forall ((s Slice)) (! (=> (not (= (pobj (sbase s)) (pobj %s))) (= (content %s s) (content %s s))) :pattern ((content %s s))))", addr, nh, h, nh))
	}
	st.heaps[hn] = nh
}

// zeroInit asserts that a freshly allocated object holds zero values. Because
// the object id is fresh, no earlier fact constrains the current heap there.
func (f *Frame) zeroInit(st *State, addr string, t types.Type) {
	for _, lf := range leaves(t) {
		a := addrPath(addr, lf.path)
		if arr, ok := lf.typ.Underlying().(*types.Array); ok {
			f.zeroInitArray(st, a, arr)
			continue
		}
		h := f.heap(st, heapName(lf.typ))
		f.ctx.Fact(fmt.Sprintf("(= (select %s %s) %s)", h, a, f.ctx.zero(lf.typ)))
	}
}

func (f *Frame) zeroInitArray(st *State, addr string, arr *types.Array) {
	for _, lf := range leaves(arr.Elem()) {
		if _, ok := lf.typ.Underlying().(*types.Array); ok {
			inner := lf.typ.Underlying().(*types.Array)
			if len(lf.path) == 0 {
				h := f.heap(st, heapName(inner.Elem()))
				f.ctx.Fact(fmt.Sprintf("(forall ((i Int) (j Int)) (! (= (select %s (elemp (elemp %s i) j)) %s) :pattern ((select %s (elemp (elemp %s i) j)))))", h, addr, f.ctx.zero(inner.Elem()), h, addr))
			}
			continue
		}
		h := f.heap(st, heapName(lf.typ))
		el := addrPath("(elemp "+addr+" i)", lf.path)
		f.ctx.Fact(fmt.Sprintf("(forall ((i Int)) (! (= (select %s %s) %s) :pattern ((select %s %s))))", h, el, f.ctx.zero(lf.typ), h, el))
	}
}

// zeroInitElems: elements of a fresh slice backing store (base at offset 0).
func (f *Frame) zeroInitElems(st *State, base string, elem types.Type) {
	for _, lf := range leaves(elem) {
		if _, ok := lf.typ.Underlying().(*types.Array); ok {
			continue
		}
		h := f.heap(st, heapName(lf.typ))
		el := addrPath("(elemp "+base+" i)", lf.path)
		f.ctx.Fact(fmt.Sprintf("(forall ((i Int)) (! (= (select %s %s) %s) :pattern ((select %s %s))))", h, el, f.ctx.zero(lf.typ), h, el))
	}
}

// newObj allocates a fresh object id.
func (f *Frame) newObj(st *State, hint string) string {
	c := f.ctx.Fresh("obj_"+hint, "Int")
	if f.top != nil {
		f.top.ownObjs = append(f.top.ownObjs, c)
	}
	f.ctx.Fact(fmt.Sprintf("(and (>= %s %s) (>= %s 1))", c, st.alloc, c))
	if hint == "map" || hint == "chan" {
		f.ctx.Fact(fmt.Sprintf("(ismapobj %s)", c))
	} else {
		f.ctx.Fact(fmt.Sprintf("(not (ismapobj %s))", c))
	}
	na := f.ctx.Fresh("alloc", "Int")
	f.ctx.Fact(fmt.Sprintf("(= %s (+ %s 1))", na, c))
	st.alloc = na
	return fmt.Sprintf("(ptr %s here)", c)
}

// ---- obligations ----

func (f *Frame) srcText(pos token.Pos) string {
	return f.eng.exprTextAt(pos)
}

func (f *Frame) posString(pos token.Pos) string {
	if !pos.IsValid() {
		return ""
	}
	p := f.eng.Prog.Fset.Position(pos)
	return fmt.Sprintf("%s:%d", strings.TrimPrefix(p.Filename, f.eng.Prog.Repo+"/"), p.Line)
}

func (f *Frame) oblig(kind string, pos token.Pos, text string, reach, goal string) {
	top := f.top
	if top.contract != nil && top.contract.NoSweep[kind] {
		return
	}
	if goal == "true" {
		// trivially discharged; still counted.
	}
	fname := shortFuncName(FuncName(top.fn))
	if f != top {
		fname += ">" + shortFuncName(FuncName(f.fn))
	}
	base := fmt.Sprintf("%s#%s[%s]", fname, kind, normText(text))
	top.ordinals[base]++
	name := fmt.Sprintf("%s#%d", base, top.ordinals[base])
	o := &Obligation{Name: name, Kind: kind, Func: FuncName(top.fn), Pos: f.posString(pos), Clause: text, Reach: reach, Goal: goal}
	o.ModelTerms = top.modelTerms()
	f.ctx.AddOblig(o)
}

func (f *Frame) modelTerms() []string { return f.params }

func shortFuncName(n string) string { return strings.TrimPrefix(n, modPrefix) }

func normText(s string) string {
	s = strings.Join(strings.Fields(s), " ")
	if len(s) > 90 {
		s = s[:90]
	}
	return s
}

// ---- running a function ----

func (f *Frame) setVal(v ssa.Value, term string) { f.vals[v] = term }

// define introduces a named constant for an instruction's value.
func (f *Frame) define(v ssa.Value, term string) string {
	n := f.ctx.Fresh(v.Name(), f.ctx.sortOf(v.Type()))
	f.ctx.Fact(Eq(n, term))
	f.vals[v] = n
	return n
}

// havocVal introduces an unconstrained value of v's type.
func (f *Frame) havocOf(t types.Type, hint string, st *State) string {
	if tup, ok := t.(*types.Tuple); ok {
		_ = tup
		f.bail("havocOf tuple")
	}
	n := f.ctx.Fresh(hint, f.ctx.sortOf(t))
	f.ctx.Fact(f.ctx.typeFacts(n, t, st.alloc))
	return n
}

func (f *Frame) edgeCond(p, s *ssa.BasicBlock) string {
	last := p.Instrs[len(p.Instrs)-1]
	if iff, ok := last.(*ssa.If); ok {
		c := f.val(iff.Cond)
		if p.Succs[0] == s && p.Succs[1] == s {
			return "true"
		}
		if p.Succs[0] == s {
			return c
		}
		return Not(c)
	}
	return "true"
}

type inEdge struct {
	pred *ssa.BasicBlock
	cond string // reach(pred) ∧ edge condition
	st   *State
}

// mergeStates builds the state at a join from incoming edges.
func (f *Frame) mergeStates(edges []inEdge) *State {
	if len(edges) == 1 {
		return edges[0].st.clone()
	}
	out := &State{heaps: map[string]string{}, base: edges[0].st.base}
	sameBase := true
	for _, e := range edges {
		if e.st.base != out.base {
			sameBase = false
		}
	}
	if !sameBase {
		out.base = f.ctx.newBase()
	}
	keys := map[string]bool{}
	for _, e := range edges {
		for k := range e.st.heaps {
			keys[k] = true
		}
	}
	var ks []string
	for k := range keys {
		ks = append(ks, k)
	}
	sort.Strings(ks)
	for _, k := range ks {
		first := f.heap(edges[0].st, k)
		same := true
		for _, e := range edges[1:] {
			if f.heap(e.st, k) != first {
				same = false
			}
		}
		if same {
			out.heaps[k] = first
			continue
		}
		n := f.ctx.Fresh(k, heapSort(k))
		for _, e := range edges {
			f.ctx.Fact(Implies(e.cond, Eq(n, f.heap(e.st, k))))
		}
		out.heaps[k] = n
	}
	// alloc
	same := true
	for _, e := range edges[1:] {
		if e.st.alloc != edges[0].st.alloc {
			same = false
		}
	}
	if same {
		out.alloc = edges[0].st.alloc
	} else {
		n := f.ctx.Fresh("alloc", "Int")
		for _, e := range edges {
			f.ctx.Fact(Implies(e.cond, Eq(n, e.st.alloc)))
		}
		out.alloc = n
	}
	// lock-time snapshots travel with the path: equal ones are kept, different ones merged
	skeys := map[string]bool{}
	for _, e := range edges {
		for k := range e.st.snaps {
			skeys[k] = true
		}
	}
	var sks []string
	for k := range skeys {
		sks = append(sks, k)
	}
	sort.Strings(sks)
	for _, k := range sks {
		first, same := edges[0].st.snaps[k], true
		for _, e := range edges[1:] {
			if e.st.snaps[k] != first {
				same = false
			}
		}
		if out.snaps == nil {
			out.snaps = map[string]*State{}
		}
		if same {
			out.snaps[k] = first
			continue
		}
		var sub []inEdge
		for _, e := range edges {
			s := e.st.snaps[k]
			if s == nil {
				// no lock taken on this path: the snapshot is the path's own state
				s = e.st.clone()
				s.snaps = nil
			}
			sub = append(sub, inEdge{nil, e.cond, s})
		}
		out.snaps[k] = f.mergeStates(sub)
	}
	// held locks: kept where all incoming paths agree
	sameHeld := true
	for _, e := range edges[1:] {
		if len(e.st.held) != len(edges[0].st.held) {
			sameHeld = false
			continue
		}
		for i := range e.st.held {
			if e.st.held[i].key != edges[0].st.held[i].key || e.st.held[i].owner != edges[0].st.held[i].owner {
				sameHeld = false
			}
		}
	}
	if sameHeld {
		out.held = append([]heldLock(nil), edges[0].st.held...)
	}
	return out
}

func (c *Ctx) newBase() string {
	c.nbase++
	return fmt.Sprintf("b%d", c.nbase)
}

// run executes the function body. args are terms for Params; bindings for FreeVars.
func (f *Frame) run(entryReach string, st *State, args []string, bindings []string) {
	fn := f.fn
	if fn.Blocks == nil {
		f.bail("function %s has no body", fn.Name())
	}
	for i, p := range fn.Params {
		f.vals[p] = args[i]
	}
	for i, fv := range fn.FreeVars {
		if i < len(bindings) {
			f.vals[fv] = bindings[i]
		} else {
			f.vals[fv] = f.havocOf(fv.Type(), "fv_"+fv.Name(), st)
		}
	}
	f.loops = f.eng.loopsOf(fn)
	f.entry = st.clone()
	for _, b := range f.loops.rpo {
		f.execBlock(b, entryReach, st)
	}
}

func (f *Frame) execBlock(b *ssa.BasicBlock, entryReach string, entrySt *State) {
	var reach string
	var st *State
	li := f.loops
	if b.Index == 0 {
		reach = entryReach
		st = entrySt.clone()
	} else {
		var edges []inEdge
		for _, p := range b.Preds {
			if li.isBack[[2]int{p.Index, b.Index}] {
				continue
			}
			pr, ok := f.reach[p]
			if !ok {
				continue // unreachable predecessor (e.g. recover block)
			}
			edges = append(edges, inEdge{p, And(pr, f.edgeCond(p, b)), f.endSt[p]})
			f.leaveObligations(p, b, And(pr, f.edgeCond(p, b)), f.endSt[p])
		}
		if len(edges) == 0 {
			return // unreachable
		}
		var conds []string
		for _, e := range edges {
			conds = append(conds, e.cond)
		}
		rc := Or(conds...)
		if len(edges) == 1 && !strings.HasPrefix(rc, "(") {
			reach = rc
		} else {
			reach = f.ctx.Fresh(fmt.Sprintf("reach_b%d", b.Index), "Bool")
			f.ctx.Fact(Eq(reach, rc))
		}
		st = f.mergeStates(edges)
		// phis
		for _, in := range b.Instrs {
			phi, ok := in.(*ssa.Phi)
			if !ok {
				break
			}
			n := f.ctx.Fresh(phi.Name(), f.ctx.sortOf(phi.Type()))
			for _, e := range edges {
				idx := predIndex(b, e.pred)
				f.ctx.Fact(Implies(e.cond, Eq(n, f.val(phi.Edges[idx]))))
			}
			f.vals[phi] = n
		}
		if l := li.heads[b]; l != nil {
			reach, st = f.enterLoop(l, reach, st, edges)
		}
	}
	f.reach[b] = reach
	f.curBlock = b
	for _, in := range b.Instrs {
		if _, ok := in.(*ssa.Phi); ok {
			continue
		}
		f.execInstr(in, reach, st)
	}
	f.endSt[b] = st
	// back edges out of b: invariant preservation
	for _, s := range b.Succs {
		if li.isBack[[2]int{b.Index, s.Index}] {
			f.checkBackEdge(li.heads[s], b, And(reach, f.edgeCond(b, s)), st)
		}
	}
}

func predIndex(b, p *ssa.BasicBlock) int {
	for i, x := range b.Preds {
		if x == p {
			return i
		}
	}
	return -1
}

// loopWrites: heaps written inside the loop.
func (f *Frame) loopWrites(l *loop) *WriteSet {
	w := &WriteSet{Heaps: map[string]bool{}}
	for b := range l.blocks {
		for _, in := range b.Instrs {
			f.instrWrites(in, w)
		}
	}
	return w
}

func (f *Frame) havocState(st *State, w *WriteSet, why string) *State {
	out := st.clone()
	if w.All {
		out.base = f.ctx.newBase()
		out.heaps = map[string]string{}
		// which locks this goroutine holds is not changed by callees; ghost heaps change only
		// through operations whose contract says so (they are in w.Heaps then)
		for name := range ghostHeaps {
			f.heap(st, "G_"+name)
		}
		for k, v := range st.heaps {
			if strings.HasPrefix(k, "G_held|") || ((strings.HasPrefix(k, "G_") || strings.HasPrefix(k, rangeSeenPrefix)) && !w.Heaps[k]) {
				out.heaps[k] = v
			}
		}
		f.eng.note("ghost state (declared ghost heaps) is changed only by operations whose contract lists it under `writes`; code without a contract is assumed not to perform them")
	} else {
		var hs []string
		for h := range w.Heaps {
			hs = append(hs, h)
		}
		sort.Strings(hs)
		for _, h := range hs {
			out.heaps[h] = f.ctx.Fresh(h, heapSort(h))
		}
	}
	na := f.ctx.Fresh("alloc", "Int")
	f.ctx.Fact(fmt.Sprintf("(>= %s %s)", na, st.alloc))
	out.alloc = na
	if w.All {
		if f.ctx.baseAlloc == nil {
			f.ctx.baseAlloc = map[string]string{}
		}
		f.ctx.baseAlloc[out.base] = na
	}
	var changed []string
	for hn, t := range out.heaps {
		if t != st.heaps[hn] {
			changed = append(changed, hn)
		}
	}
	sort.Strings(changed)
	for _, hn := range changed {
		f.heapWF(hn, out.heaps[hn], na)
	}
	if why != "lock" {
		// state guarded by a lock this goroutine holds cannot be changed by anybody else, nor by
		// code called while holding it (a non-reentrant mutex): the guarded fields of the owner
		// and the contents of guarded maps keep their values
		for _, hl := range st.held {
			if why == "loop" && f.havocLoop != nil && f.eng.loopMayWriteGuarded(f.havocLoop, hl.cells) {
				// a loop that runs under the lock and writes the guarded state itself: only its
				// invariants speak about that state at the loop head
				f.eng.note("guarded state is kept at the head of a loop that runs while holding the lock, except loops whose body stores to fields or maps of the guarded types (type-based scan)")
				continue
			}
			if why == "call" && f.havocCallee != nil && f.eng.mayWriteGuarded(f.havocCallee, hl.cells, map[*ssa.Function]bool{}) {
				// a helper that is called with the lock held and writes the guarded state itself
				// (its contract, if any, says what it does to it): nothing is kept for it
				f.eng.note("guarded state is kept across calls made while holding the lock, except calls of repository functions that themselves store to fields or maps of the guarded types or whose contract requires held(...) (type-based scan of the static call graph)")
				continue
			}
			for _, cell := range hl.cells {
				for _, lf := range leaves(cell.typ) {
					if _, ok := lf.typ.Underlying().(*types.Array); ok {
						continue
					}
					hn := heapName(lf.typ)
					a := addrPath(cell.addr, lf.path)
					hb, ha := f.heap(st, hn), f.heap(out, hn)
					if hb != ha {
						f.ctx.Fact(fmt.Sprintf("(= (select %s %s) (select %s %s))", ha, a, hb, a))
					}
				}
				if mt, ok := cell.typ.Underlying().(*types.Map); ok {
					mv := f.load(st, cell.addr, cell.typ)
					d, v := mapHeaps(f.ctx, mt)
					for _, hn := range []string{d, v, mapLenHeap(f.ctx, mt)} {
						hb, ha := f.heap(st, hn), f.heap(out, hn)
						if hb != ha {
							f.ctx.Fact(fmt.Sprintf("(= (select %s %s) (select %s %s))", ha, mv, hb, mv))
						}
					}
				}
			}
		}
	}
	if f.top != nil {
		for _, c := range f.top.immCells {
			for _, lf := range leaves(c.typ) {
				if _, ok := lf.typ.Underlying().(*types.Array); ok {
					continue
				}
				hn := heapName(lf.typ)
				a := addrPath(c.addr, lf.path)
				hb, ha := f.heap(st, hn), f.heap(out, hn)
				if hb != ha {
					f.ctx.Fact(fmt.Sprintf("(= (select %s %s) (select %s %s))", ha, a, hb, a))
				}
			}
		}
	}
	return out
}

// mayWriteGuarded: does fn, or a repository function it calls statically (closures it creates
// included), store to a field or map whose type is the type of one of the guarded cells, or carry a
// contract that requires a held lock? Type-based and therefore conservative.
func (e *Engine) mayWriteGuarded(fn *ssa.Function, cells []immCell, seen map[*ssa.Function]bool) bool {
	if fn == nil || seen[fn] {
		return false
	}
	seen[fn] = true
	if fc := e.contractFor(fn); fc != nil {
		for _, r := range fc.Requires {
			if strings.Contains(r.Text, "held(") {
				return true
			}
		}
	}
	if fn.Blocks == nil || fn.Pkg == nil || !strings.HasPrefix(fn.Pkg.Pkg.Path(), strings.TrimSuffix(modPrefix, "/")) {
		return false
	}
	for _, b := range fn.Blocks {
		for _, in := range b.Instrs {
			if e.instrMayWriteGuarded(in, cells, seen) {
				return true
			}
		}
	}
	return false
}

// loopMayWriteGuarded: does the body of l contain an instruction that may write a guarded cell?
func (e *Engine) loopMayWriteGuarded(l *loop, cells []immCell) bool {
	seen := map[*ssa.Function]bool{}
	for b := range l.blocks {
		for _, in := range b.Instrs {
			if e.instrMayWriteGuarded(in, cells, seen) {
				return true
			}
		}
	}
	return false
}

// instrMayWriteGuarded: the per-instruction part of mayWriteGuarded (also used for loop bodies).
func (e *Engine) instrMayWriteGuarded(in ssa.Instruction, cells []immCell, seen map[*ssa.Function]bool) bool {
	isCellType := func(t types.Type) bool {
		for _, c := range cells {
			if types.Identical(t, c.typ) {
				return true
			}
		}
		return false
	}
	switch x := in.(type) {
	case *ssa.Store:
		if _, ok := x.Addr.(*ssa.FieldAddr); ok && isCellType(x.Val.Type()) {
			return true
		}
	case *ssa.MapUpdate:
		if isCellType(x.Map.Type()) {
			return true
		}
	case *ssa.MakeClosure:
		if cf, ok := x.Fn.(*ssa.Function); ok && e.mayWriteGuarded(cf, cells, seen) {
			return true
		}
	case *ssa.Call:
		cc := x.Common()
		if bi, ok := cc.Value.(*ssa.Builtin); ok {
			if (bi.Name() == "delete" || bi.Name() == "clear") && isCellType(cc.Args[0].Type()) {
				return true
			}
			return false
		}
		if cal := cc.StaticCallee(); cal != nil && e.mayWriteGuarded(cal, cells, seen) {
			return true
		}
	case *ssa.Defer:
		if cal := x.Common().StaticCallee(); cal != nil && e.mayWriteGuarded(cal, cells, seen) {
			return true
		}
	}
	return false
}

// immCell: the address and type of an assigned-once local variable cell.
type immCell struct {
	addr string
	typ  types.Type
}

// frameFacts relates a havocked state to the state before: among objects
// allocated before `before.alloc`, only those listed in modObjs (object ids) may
// have changed. modObjs == ["*"] means unknown: no facts.
func (f *Frame) frameFacts(before, after *State, guard string, modObjs []string) {
	for _, m := range modObjs {
		if m == "*" {
			return
		}
	}
	var ks []string
	for k := range after.heaps {
		ks = append(ks, k)
	}
	if after.base != before.base {
		for k := range before.heaps {
			if _, ok := after.heaps[k]; !ok {
				ks = append(ks, k)
			}
		}
		if f.ctx.baseFrames == nil {
			f.ctx.baseFrames = map[string]*lazyFrame{}
		}
		f.ctx.baseFrames[after.base] = &lazyFrame{before.clone(), guard, modObjs}
	}
	sort.Strings(ks)
	for _, k := range ks {
		hb, ha := f.heap(before, k), f.heap(after, k)
		if hb == ha {
			continue
		}
		f.frameFact1(k, hb, ha, before.alloc, guard, modObjs)
	}
}

func (f *Frame) frameFact1(k, hb, ha, alloc, guard string, modObjs []string) {
	if strings.HasPrefix(k, "G_") || strings.HasPrefix(k, rangeSeenPrefix) {
		return // ghost heaps are not keyed by addresses; contracts state their own frames
	}
	cond := fmt.Sprintf("(< (pobj p) %s)", alloc)
	var ex []string
	for _, m := range modObjs {
		if strings.HasPrefix(m, "slice:") {
			// only the elements of this slice (not the rest of its backing object)
			ex = append(ex, fmt.Sprintf("(not (inslice p %s))", m[6:]))
			continue
		}
		if strings.HasPrefix(m, "type:") {
			// every object allocated as this type may have changed
			// (type:ID:since — except those allocated at or after `since`)
			parts := strings.SplitN(m[5:], ":", 2)
			if len(parts) == 2 {
				ex = append(ex, fmt.Sprintf("(or (not (= (objtype (pobj p)) %s)) (>= (pobj p) %s))", parts[0], parts[1]))
			} else {
				ex = append(ex, fmt.Sprintf("(not (= (objtype (pobj p)) %s))", parts[0]))
			}
			continue
		}
		if strings.HasPrefix(m, "(pobj ") && strings.HasSuffix(m, ")") {
			// `modifies x` with x == nil names no object
			x := m[6 : len(m)-1]
			ex = append(ex, fmt.Sprintf("(or (= %s nil) (not (= (pobj p) %s)))", x, m))
			continue
		}
		ex = append(ex, fmt.Sprintf("(not (= (pobj p) %s))", m))
	}
	cond = And(append([]string{"(not (= p nil))", cond}, ex...)...)
	pats := fmt.Sprintf(":pattern ((select %s p))", ha)
	if top := f.top; top != nil && top.contract != nil && top.contract.ForwardTerms {
		pats += fmt.Sprintf(" :pattern ((select %s p))", hb)
	}
	f.ctx.Fact(Implies(guard, fmt.Sprintf("(forall ((p Ptr)) (! (=> %s (= (select %s p) (select %s p))) %s))", cond, ha, hb, pats)))
	if k == "H_uint8" {
		scond := fmt.Sprintf("(< (pobj (sbase s)) %s)", alloc)
		var sex []string
		for _, m := range modObjs {
			if strings.HasPrefix(m, "slice:") {
				sex = append(sex, fmt.Sprintf("(slicesdisjoint s %s)", m[6:]))
				continue
			}
			if strings.HasPrefix(m, "type:") {
				sex = append(sex, fmt.Sprintf("(not (= (objtype (pobj (sbase s))) %s))", strings.SplitN(m[5:], ":", 2)[0]))
				continue
			}
			sex = append(sex, fmt.Sprintf("(not (= (pobj (sbase s)) %s))", m))
		}
		scond = And(append([]string{"(not (= (sbase s) nil))", scond}, sex...)...)
		f.ctx.Fact(Implies(guard, fmt.Sprintf("(forall ((s Slice)) (! (=> %s (= (content %s s) (content %s s))) :pattern ((content %s s))))", scond, ha, hb, ha)))
	}
}

func (f *Frame) enterLoop(l *loop, entryReach string, entrySt *State, edges []inEdge) (string, *State) {
	invs := f.loopInvariants(l)
	// 1. invariant holds on entry (phis currently hold the merged entry values).
	for _, inv := range invs {
		env := f.loopEnv(l, entrySt)
		g, err := env.evalGoal(inv.E)
		if err != nil {
			f.bail("loop %d invariant %q: %v", l.ordinal, inv.Text, err)
		}
		f.oblig("inv-init", l.head.Instrs[0].Pos(), fmt.Sprintf("loop %d: %s", l.ordinal, inv.Text), entryReach, g)
	}
	// 2. havoc
	w := f.loopWrites(l)
	f.havocLoop = l
	st := f.havocState(entrySt, w, "loop")
	f.havocLoop = nil
	reach := f.ctx.Fresh(fmt.Sprintf("reach_loop%d", l.ordinal), "Bool")
	f.ctx.Fact(Implies(reach, entryReach))
	for _, in := range l.head.Instrs {
		phi, ok := in.(*ssa.Phi)
		if !ok {
			break
		}
		f.vals[phi] = f.havocOf(phi.Type(), phi.Name()+"_"+sanitize(phi.Comment), st)
		if phi.Comment == "rangeindex" {
			// go/ssa's range-over-slice index starts at -1 and is only incremented.
			f.ctx.Fact(fmt.Sprintf("(>= %s (- 1))", f.vals[phi]))
			if f.top != nil && len(f.top.loopIdxTerms) < 8 {
				// candidate witnesses for existentials proved after the loop (specexpr.go)
				f.top.loopIdxTerms = append(f.top.loopIdxTerms, fmt.Sprintf("(+ %s 1)", f.vals[phi]))
			}
		} else if b, isBasic := phi.Type().Underlying().(*types.Basic); isBasic && b.Info()&types.IsInteger != 0 && f.top != nil && len(f.top.loopIdxTerms) < 8 {
			f.top.loopIdxTerms = append(f.top.loopIdxTerms, f.vals[phi])
		}
	}
	// automatic frame invariant relative to function entry: objects that
	// existed at entry and are not modified objects keep their contents.
	// (established on entry by the facts accumulated so far; assumed here and
	// re-proved at back edges only when the function has a frame obligation.)
	if objs := f.syntacticModObjs(l.blocks, entrySt); len(objs) == 0 || objs[0] != "*" {
		f.frameFacts(entrySt, st, reach, objs)
	} else if f.top.framed && f == f.top {
		// every write in a framed function is checked (frame obligations) to
		// hit only objects fresh since function entry or listed in modifies.
		pre := entrySt.clone()
		pre.alloc = f.top.alloc0
		f.frameFacts(pre, st, reach, f.top.modObjs)
	}
	// 3. assume invariants
	for _, inv := range invs {
		env := f.loopEnv(l, st)
		g, err := env.evalBool(inv.E)
		if err != nil {
			f.bail("loop %d invariant %q: %v", l.ordinal, inv.Text, err)
		}
		f.ctx.Fact(Implies(reach, g))
	}
	return reach, st
}

func (f *Frame) checkBackEdge(l *loop, from *ssa.BasicBlock, cond string, st *State) {
	invs := f.loopInvariants(l)
	if len(invs) == 0 {
		return
	}
	// temporarily bind phis to the back-edge operands
	saved := map[*ssa.Phi]string{}
	idx := predIndex(l.head, from)
	for _, in := range l.head.Instrs {
		phi, ok := in.(*ssa.Phi)
		if !ok {
			break
		}
		saved[phi] = f.vals[phi]
	}
	newv := map[*ssa.Phi]string{}
	for phi := range saved {
		newv[phi] = f.val(phi.Edges[idx])
	}
	for phi, v := range newv {
		f.vals[phi] = v
	}
	for _, inv := range invs {
		env := f.loopEnv(l, st)
		g, err := env.evalGoal(inv.E)
		if err != nil {
			f.bail("loop %d invariant %q: %v", l.ordinal, inv.Text, err)
		}
		f.oblig("inv-pres", from.Instrs[len(from.Instrs)-1].Pos(), fmt.Sprintf("loop %d: %s", l.ordinal, inv.Text), cond, g)
	}
	for phi, v := range saved {
		f.vals[phi] = v
	}
}

// loopLeaves: the `loop N leaves-when e` clauses of loop l (top-level function only).
func (f *Frame) loopLeaves(l *loop) []Clause {
	if f != f.top || f.contract == nil {
		return nil
	}
	if ls := f.contract.Loops[fmt.Sprint(l.ordinal)]; ls != nil {
		return ls.Leaves
	}
	return nil
}

// leaveObligations: for an edge p -> b that leaves loop l for the code after it, prove the
// loop's leaves-when clauses. Edges into blocks that can only return (early returns inside the
// loop body) are not such edges: only targets reachable from the loop's normal exit count, when the
// loop has one.
func (f *Frame) leaveObligations(p, b *ssa.BasicBlock, cond string, st *State) {
	for _, l := range f.loops.ordered {
		if !l.blocks[p] || l.blocks[b] {
			continue
		}
		leaves := f.loopLeaves(l)
		if len(leaves) == 0 {
			continue
		}
		var normal []*ssa.BasicBlock
		for _, s := range l.head.Succs {
			if !l.blocks[s] {
				normal = append(normal, s)
			}
		}
		if len(normal) > 0 {
			seen := map[*ssa.BasicBlock]bool{}
			work := append([]*ssa.BasicBlock(nil), normal...)
			for len(work) > 0 {
				x := work[len(work)-1]
				work = work[:len(work)-1]
				if seen[x] {
					continue
				}
				seen[x] = true
				work = append(work, x.Succs...)
			}
			if !seen[b] {
				continue
			}
		}
		for _, lv := range leaves {
			env := f.loopEnv(l, st)
			g, err := env.evalGoal(lv.E)
			if err != nil {
				f.bail("loop %d leaves-when %q: %v", l.ordinal, lv.Text, err)
			}
			f.oblig("loop-exit", p.Instrs[len(p.Instrs)-1].Pos(), fmt.Sprintf("loop %d leaves-when: %s", l.ordinal, lv.Text), cond, g)
		}
	}
}

func (f *Frame) loopInvariants(l *loop) []Clause {
	if f != f.top || f.contract == nil {
		if fc := f.eng.contractFor(f.fn); fc != nil {
			if ls := fc.Loops[fmt.Sprint(l.ordinal)]; ls != nil {
				return ls.Invariants
			}
		}
		// a closure of the function under contract, executed inline: `loop $1.2 invariant ...`
		// in the enclosing function's contract names loop 2 of closure $1
		if top := f.top; top != nil && top.contract != nil && f.fn.Parent() != nil {
			tn, cn := FuncName(top.fn), FuncName(f.fn)
			if strings.HasPrefix(cn, tn+"$") {
				if ls := top.contract.Loops[cn[len(tn):]+"."+fmt.Sprint(l.ordinal)]; ls != nil {
					return ls.Invariants
				}
			}
		}
		return nil
	}
	if ls := f.contract.Loops[fmt.Sprint(l.ordinal)]; ls != nil {
		return ls.Invariants
	}
	return nil
}

// framedNoModsCall: the call goes to a callee under a framed contract without a modifies clause
// and without ghost writes (verified, or an assumed contract), or to an uncontracted function that
// syntactically writes only objects it allocates: no object existing before the call changes.
func (f *Frame) framedNoModsCall(cc *ssa.CallCommon) bool {
	if _, ok := cc.Value.(*ssa.Builtin); ok {
		return false
	}
	noGhost := func(ws []string) bool {
		for _, h := range ws {
			if strings.HasPrefix(h, "G_") {
				return false
			}
		}
		return true
	}
	if cc.IsInvoke() {
		ic := f.eng.ifaceContract(cc)
		return ic != nil && !ic.Pure && !ic.WritesAll && len(ic.Modifies) == 0 && !ic.NoFrame && ic.HasWrites && len(ic.Writes) == 0
	}
	callee := cc.StaticCallee()
	if callee == nil {
		return false
	}
	if specialCallee(callee) != "" {
		return false
	}
	if fc := f.eng.contractFor(callee); fc != nil {
		if fc.Inline || fc.NoFrame || fc.WritesAll || len(fc.Modifies) != 0 || !noGhost(fc.Writes) {
			return false
		}
		if fc.SpecOnly || fc.Trusted {
			return len(fc.Writes) == 0
		}
		// verified contract: its body may close channels etc. (ghost writes are inferred)
		w := f.eng.writesOf(f.ctx, callee)
		for h := range w.Heaps {
			if strings.HasPrefix(h, "G_") {
				return false
			}
		}
		return true
	}
	return false
}
