#!/bin/sh
# usage: mkmutant.sh <name> <property> <file> <python-replace-expr old> <new>
# Creates selftest/mutants/<name>.patch (against /repo HEAD) without touching /repo.
set -e
name=$1; prop=$2; file=$3; old=$4; new=$5
w=$(mktemp -d /tmp/mut.XXXXXX)
git -C /repo worktree add -q --detach "$w" HEAD
python3 - "$w/$file" "$old" "$new" <<'PY'
import sys
p,old,new=sys.argv[1:4]
s=open(p).read()
assert s.count(old)>=1, "pattern not found: "+old
s=s.replace(old,new,1)
open(p,'w').write(s)
PY
(cd "$w" && go build ./$(dirname $file)/ ) || { echo "mutant does not compile"; git -C /repo worktree remove --force "$w"; exit 1; }
git -C "$w" diff > /verif/selftest/mutants/$name.patch
echo "$prop" > /verif/selftest/mutants/$name.prop
git -C /repo worktree remove --force "$w"
echo "created $name"
