#!/bin/sh
# one mutant of the must-fail corpus: prints one SELFTEST line (plus context on failure); exit 1 on failure
cd /verif
name=$1; p=selftest/mutants/$name.patch; prop=$(cat selftest/mutants/$name.prop)
w=$(mktemp -d /tmp/selftest.XXXXXX)
git -C /repo worktree add -q --detach "$w" HEAD 2>/dev/null || { sleep 1; git -C /repo worktree add -q --detach "$w" HEAD; }
(cd /repo && find . -name contracts_verif.go -print0 | tar --null -cf - -T -) | (cd "$w" && tar xf -)
if ! git -C "$w" apply "/verif/$p"; then echo "SELFTEST $name: patch does not apply"; git -C /repo worktree remove --force "$w"; exit 1; fi
out=$(bin/bfvc check --property $prop --repo "$w" --evidence-dir "$w/.evidence" 2>&1); rc=$?
git -C /repo worktree remove --force "$w"
case "$name" in *-neg-*)
  if [ $rc -eq 0 ]; then echo "SELFTEST $name ($prop): negative control stayed green"; exit 0; fi
  echo "SELFTEST $name ($prop): FALSE ALARM on harmless change (rc=$rc)
$(echo "$out" | tail -3)"; exit 1;; esac
if [ $rc -eq 1 ] && echo "$out" | grep -q "^VIOLATION property=$prop"; then
  echo "SELFTEST $name ($prop): caught: $(echo "$out" | grep -m1 '^FAILED-OBLIGATION' | cut -c1-160)"; exit 0
fi
echo "SELFTEST $name ($prop): MISSED (rc=$rc)
$(echo "$out" | tail -3)"; exit 1
