#!/usr/bin/env python3
"""Regenerates /verif/MANIFEST.json from tools/claims.json (claimed checks) and properties.jsonl."""
import json, os, subprocess
root = os.path.dirname(os.path.dirname(os.path.abspath(__file__)))
props = [json.loads(l) for l in open(os.path.join(root, 'properties.jsonl'))]
claims = json.load(open(os.path.join(root, 'tools', 'claims.json')))
hooks = subprocess.run(['git', '-C', '/repo', 'log', '--format=%h %s'], capture_output=True, text=True).stdout.splitlines()
hook_commits = [l.split()[0] for l in hooks if l.split(' ', 1)[1].startswith('verif:')]
checks, na = [], []
for p in props:
    c = claims.get(p['id'])
    if c and c.get('claimed'):
        checks.append({
            "property_id": p['id'],
            "quick_cmd": f"bin/bfvc check --property {p['id']} --tier quick",
            "thorough_cmd": f"bin/bfvc check --property {p['id']} --tier thorough",
            "evidence_file": f"evidence/{p['id']}.json",
            "replay_cmd_template": "bin/bfvc replay {path}",
            "engine": "bfvc",
            "level_claimed": {"category": c.get('category', 'proof'), "text": c['text'], "design_ref": c.get('design_ref', 'DESIGN.md section 10')},
            "level_note": c['note'],
            "technique": c.get('technique', 'contract-based deductive verification: weakest-precondition VCs over go/ssa of the real functions, discharged by z3/cvc5'),
        })
    else:
        na.append({"property_id": p['id'], "reason": (c or {}).get('reason', 'check not built yet (work in progress; see DESIGN.md section 10 for the plan)')})
m = {"version": 1, "setup_cmd": "./setup.sh",
     "hooks": {"guard": "verif", "enable": "-tags verif (comment-only contract files contracts_verif.go; read by bfvc, never compiled into the product)",
               "baseline_off_cmd": "cd /repo && go test -vet=off -count=1 -timeout 25m ./...",
               "source_commits": hook_commits, "add_only": True},
     "engines": [{"name": "bfvc", "path": "tool", "serves_properties": [c['property_id'] for c in checks],
                  "kind_free_text": "own VC generator over go/ssa of /repo's working tree; contracts in //go:build verif comment files; z3 5.1 / z3 4.8 / cvc5 portfolio; bounded counterexample search + go test -overlay replay"}],
     "checks": checks,
     "notes": "Contract-based deductive verification of the real Go functions; see DESIGN.md. A function whose contract can no longer be bound to the code (anchor removed, types changed) or that left the modelled subset is reported as a failed obligation of kind bind (VIOLATION ... no-failing-input-found). Exit 2 (no VIOLATION line) = the tree does not load/compile or a contract file has a syntax error.",
     "not_applicable": na}
json.dump(m, open(os.path.join(root, 'MANIFEST.json'), 'w'), indent=1)
print(len(checks), 'claimed;', len(na), 'not claimed')
