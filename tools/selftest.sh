#!/bin/sh
# Must-fail corpus: every mutant must make its property's check report a VIOLATION (exit 1);
# runs on scratch worktrees outside /repo and /verif, removed immediately.
# usage: selftest.sh [pattern]
cd /verif
pat=${1:-}
fail=0; n=0
for p in selftest/mutants/*${pat}*.patch; do
  name=$(basename $p .patch); prop=$(cat selftest/mutants/$name.prop)
  w=$(mktemp -d /tmp/selftest.XXXXXX)
  git -C /repo worktree add -q --detach "$w" HEAD
  (cd /repo && find . -name contracts_verif.go -print0 | tar --null -cf - -T -) | (cd "$w" && tar xf -)
  if ! git -C "$w" apply "/verif/$p"; then echo "SELFTEST $name: patch does not apply"; fail=1; git -C /repo worktree remove --force "$w"; continue; fi
  out=$(bin/bfvc check --property $prop --repo "$w" --evidence-dir "$w/.evidence" 2>&1); rc=$?
  git -C /repo worktree remove --force "$w"
  n=$((n+1))
  case "$name" in *-neg-*)
    if [ $rc -eq 0 ]; then echo "SELFTEST $name ($prop): negative control stayed green"; else echo "SELFTEST $name ($prop): FALSE ALARM on harmless change (rc=$rc)"; echo "$out" | tail -3; fail=1; fi
    continue;; esac
  if [ $rc -eq 1 ] && echo "$out" | grep -q "^VIOLATION property=$prop"; then
    echo "SELFTEST $name ($prop): caught: $(echo "$out" | grep -m1 '^FAILED-OBLIGATION' | cut -c1-160)"
  else
    echo "SELFTEST $name ($prop): MISSED (rc=$rc)"; echo "$out" | tail -3; fail=1
  fi
done
echo "selftest: $n mutants, fail=$fail"
exit $fail
