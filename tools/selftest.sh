#!/bin/sh
# Must-fail corpus: every mutant must make its property's check report a VIOLATION (exit 1);
# negative controls (-neg-) must stay green. Runs on scratch worktrees outside /repo and /verif,
# removed immediately. usage: selftest.sh [pattern]   (SELFTEST_JOBS mutants at a time, default 3)
cd /verif
pat=${1:-}
ls selftest/mutants/*${pat}*.patch | xargs -n1 basename | sed 's/\.patch$//' > /tmp/selftest.list.$$
n=$(wc -l < /tmp/selftest.list.$$)
xargs -P ${SELFTEST_JOBS:-3} -n1 tools/selftest_one.sh < /tmp/selftest.list.$$
rc=$?
rm -f /tmp/selftest.list.$$
git -C /repo worktree prune
fail=0; [ $rc -ne 0 ] && fail=1
echo "selftest: $n mutants, fail=$fail"
exit $fail
