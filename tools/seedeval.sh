#!/bin/bash
# usage: seedeval.sh <prop> <seeddir> <i> <pkgdir> <TestName> "<existing test pkgs>" [<checkprops>]
# Confirms a seeded breaking change (compiles, existing tests pass, demo fails with / passes without),
# runs the property's check against it on a scratch worktree, stores it under /verif/seeded/.
prop=$1; sd=$2; i=$3; pkg=$4; tname=$5; tpkgs=$6; cprops=${7:-$prop}
export GOFLAGS=-mod=mod GOPROXY=off
w=$(mktemp -d /tmp/seedeval.XXXXXX)
git -C /repo worktree add -q --detach "$w" HEAD || exit 2
(cd /repo && find . -name contracts_verif.go -print0 | tar --null -cf - -T -) | (cd "$w" && tar xf -)  # current contract files, committed or not
cleanup() { git -C /repo worktree remove --force "$w" 2>/dev/null; }
trap cleanup EXIT
cp "$sd/change${i}_demo_test.go.txt" "$w/$pkg/zz_demo_test.go"
(cd "$w" && go test -vet=off -count=1 -run "$tname" "./$pkg/" >/tmp/seedeval.base.log 2>&1); base=$?
if ! git -C "$w" apply "$sd/change$i.diff"; then echo "SEED $prop-$i: patch does not apply to current HEAD"; exit 2; fi
(cd "$w" && go build ./... >/tmp/seedeval.build.log 2>&1); build=$?
(cd "$w" && go test -vet=off -count=1 -run "$tname" "./$pkg/" >/tmp/seedeval.demo.log 2>&1); demo=$?
rm -f "$w/$pkg/zz_demo_test.go"
(cd "$w" && go test -vet=off -count=1 $tpkgs >/tmp/seedeval.tests.log 2>&1); tests=$?
echo "SEED $prop-$i: baseline-demo=$base (want 0) build=$build (want 0) demo-with-change=$demo (want !=0) existing-tests=$tests (want 0)"
caught=""; detail=""
for cp in $cprops; do
  out=$(cd /verif && bin/bfvc check --property $cp --repo "$w" --evidence-dir "$w/.ev" 2>&1); rc=$?
  echo "  check $cp: rc=$rc $(echo "$out" | grep -m2 '^FAILED-OBLIGATION' | cut -c1-200)"
  if [ $rc -eq 1 ]; then caught="$caught $cp"; detail="$detail $(echo "$out" | grep -m1 '^FAILED-OBLIGATION' | cut -c19-160)"; fi
  if [ $rc -eq 2 ]; then echo "$out" | tail -3; fi
done
ok=0; [ $base -eq 0 ] && [ $build -eq 0 ] && [ $demo -ne 0 ] && [ $tests -eq 0 ] && ok=1
d=/verif/seeded/$prop-$i; mkdir -p $d
cp "$sd/change$i.diff" $d/patch.diff; cp "$sd/change${i}_demo_test.go.txt" $d/demo_test.go.txt; cp "$sd/change$i.md" $d/notes.md 2>/dev/null
python3 - "$d" "$prop" "$i" "$pkg" "$tname" "$tpkgs" "$ok" "$caught" "$detail" <<'PY'
import json,sys
d,prop,i,pkg,tname,tpkgs,ok,caught,detail=sys.argv[1:10]
notes=open(d+'/notes.md').read() if __import__('os').path.exists(d+'/notes.md') else ''
json.dump({"property":prop,"breaks":prop,"demo_package":pkg,"demo_test":tname,
 "needs_to_manifest": notes[:1500],
 "confirmed": ok=="1",
 "what_i_ran":["go test -run %s ./%s/ without the change (passes)"%(tname,pkg),"git apply patch.diff; go build ./...","go test -run %s ./%s/ with the change (fails)"%(tname,pkg),"go test %s with the change (existing tests pass)"%tpkgs,"bin/bfvc check --property <p> --repo <scratch worktree>"],
 "caught_by_checks":caught.split(),"first_failed_obligation":detail.strip()},open(d+'/meta.json','w'),indent=1)
PY
echo "  stored $d (confirmed=$ok caught_by=[$caught ])"
