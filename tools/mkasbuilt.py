#!/usr/bin/env python3
"""Regenerates the machine-derived tables of DESIGN.md section 14 (between the AS-BUILT markers)
from known_findings.jsonl, seeded/*/meta.json, selftest/mutants and tools/claims.json."""
import json, os, glob, re
root = os.path.dirname(os.path.dirname(os.path.abspath(__file__)))
claims = json.load(open(os.path.join(root, 'tools', 'claims.json')))
props = [json.loads(l) for l in open(os.path.join(root, 'properties.jsonl'))]
out = []
out.append("### 14.1 Status per property (generated)\n")
out.append("| id | status | what is decided |")
out.append("|---|---|---|")
for p in props:
    c = claims.get(p['id'], {})
    if c.get('claimed'):
        out.append("| %s | claimed | %s |" % (p['id'], c['note'].replace('|', '/')))
    else:
        out.append("| %s | not applicable / not claimed | %s |" % (p['id'], c.get('reason', 'no check built (see section 10 for the plan that was not reached)').replace('|', '/')))
out.append("\n### 14.2 Defects found by failed obligations, replayed on the real code and repaired (generated from known_findings.jsonl)\n")
out.append("| property | status / fix commit | failed obligation (prefix) | what failed |")
out.append("|---|---|---|---|")
for l in open(os.path.join(root, 'known_findings.jsonl')):
    l = l.strip()
    if not l:
        continue
    k = json.loads(l)
    out.append("| %s | %s | `%s` | %s |" % (k['property'], ('fixed ' + k['commit']) if k.get('status') == 'fixed' else 'KNOWN (recorded, not repaired)', k['obligation'][:90].replace('|', '/'), re.sub(r'^fixed: property=\S+ \S+ ', '', k['what']).replace('|', '/')))
out.append("\n### 14.3 Seeded changes (generated from seeded/*/meta.json)\n")
out.append("Each was produced by a fresh sub-agent that saw only the property text and a scratch worktree, and was confirmed here (compiles, existing tests pass, demo test fails with it and passes without).\n")
out.append("| seed | caught by | first-shot | first failed obligation now |")
out.append("|---|---|---|---|")
n = caught = first = 0
for d in sorted(glob.glob(os.path.join(root, 'seeded', '*'))):
    m = json.load(open(os.path.join(d, 'meta.json')))
    now = m.get('caught_by_checks_now', m.get('caught_by_checks', []))
    fs = bool(m.get('caught_by_checks')) and not m.get('caught_after_strengthening') and not m.get('strengthened')
    n += 1
    caught += 1 if now else 0
    first += 1 if fs else 0
    out.append("| %s | %s | %s | `%s` |" % (os.path.basename(d), ','.join(now) or 'MISSED', 'yes' if fs else ('after strengthening' if now else 'no'), (m.get('first_failed_obligation_now') or m.get('first_failed_obligation') or '')[:110].replace('|', '/')))
out.append("\n%d seeded changes, %d caught by the current checks.\n" % (n, caught))
muts = sorted(glob.glob(os.path.join(root, 'selftest', 'mutants', '*.patch')))
neg = [m for m in muts if '-neg-' in m]
out.append("### 14.4 Must-fail corpus (generated)\n")
out.append("%d hand-written mutants in selftest/mutants (%d of them negative controls: harmless edits that must stay green). `tools/selftest.sh` applies each to a scratch worktree and requires a VIOLATION for the mutant's property (or exit 0 for a negative control).\n" % (len(muts), len(neg)))
lr = os.path.join(root, 'selftest', 'last_run.log')
if os.path.exists(lr):
    L = open(lr).read().splitlines()
    c = sum(1 for l in L if l.startswith('SELFTEST') and ': caught:' in l)
    g = sum(1 for l in L if l.startswith('SELFTEST') and 'stayed green' in l)
    bad = [l for l in L if l.startswith('SELFTEST') and ': caught:' not in l and 'stayed green' not in l]
    bindonly = sum(1 for l in L if l.startswith('SELFTEST') and '#generate[' in l)
    out.append("Last full run (selftest/last_run.log): %d mutants caught, %d negative controls green, %d not as required; %d of the catches name a `bind` obligation first (the others a semantic obligation).\n" % (c, g, len(bad), bindonly))
text = "\n".join(out) + "\n"
p = os.path.join(root, 'DESIGN.md')
s = open(p).read()
b, e = "<!-- AS-BUILT:BEGIN -->", "<!-- AS-BUILT:END -->"
if b in s:
    s = s[:s.index(b) + len(b)] + "\n" + text + s[s.index(e):]
else:
    s += "\n" + b + "\n" + text + e + "\n"
open(p, 'w').write(s)
print("as-built tables regenerated:", n, "seeds,", len(muts), "mutants")
