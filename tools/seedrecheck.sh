#!/bin/sh
# Re-runs the stored seeded changes (seeded/<id>/patch.diff) against the current checks, on scratch
# worktrees outside /repo and /verif. usage: seedrecheck.sh [pattern]
cd /verif
pat=${1:-}
for d in seeded/*${pat}*/; do
  id=$(basename $d)
  prop=$(python3 -c "import json;print(json.load(open('$d/meta.json'))['property'])")
  want=$(python3 -c "import json;print(','.join(json.load(open('$d/meta.json')).get('caught_by_checks',[])))")
  w=$(mktemp -d /tmp/seedre.XXXXXX)
  git -C /repo worktree add -q --detach "$w" HEAD
  (cd /repo && find . -name contracts_verif.go -print0 | tar --null -cf - -T -) | (cd "$w" && tar xf -)
  if ! git -C "$w" apply "/verif/$d/patch.diff"; then echo "SEED $id: patch does not apply"; git -C /repo worktree remove --force "$w"; continue; fi
  out=$(bin/bfvc check --property $prop --repo "$w" --evidence-dir "$w/.evidence" 2>&1); rc=$?
  git -C /repo worktree remove --force "$w"
  python3 - "$d/meta.json" "$rc" "$prop" "$(echo "$out" | grep -m1 '^FAILED-OBLIGATION' | cut -c19-200)" <<'PY'
import json,sys
p,rc,prop,ob=sys.argv[1:5]
m=json.load(open(p))
m["caught_by_checks_now"]=[prop] if rc=="1" else []
m["first_failed_obligation_now"]=ob.strip()
if rc=="1" and not m.get("caught_by_checks"):
    m["caught_after_strengthening"]=True
json.dump(m,open(p,"w"),indent=1)
PY
  if [ $rc -eq 1 ]; then echo "SEED $id ($prop): caught (recorded: ${want:-none}): $(echo "$out" | grep -m1 '^FAILED-OBLIGATION' | cut -c1-140)"; else echo "SEED $id ($prop): not caught rc=$rc (recorded: ${want:-none})"; fi
done
