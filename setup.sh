#!/bin/sh
# Build bfvc offline with go1.26.8 + x/tools v0.50.0.
set -e
cd "$(dirname "$0")/tool"
export PATH=/opt/veriftools/go1.26.8/bin:$PATH GOFLAGS=-mod=mod GOPROXY=off GOSUMDB=off GOTOOLCHAIN=local
mkdir -p ../bin
go build -o ../bin/bfvc ./cmd/bfvc
